// C19 — estimateMemory bounds the memory actually requested while loading and convolving.
// Oracle: a byte-counting allocator passed as the table's allocator template parameter.
#include "common/vf_rc.hpp"
#include "common/libtable.hpp"
#include "common/alloc.hpp"
#include <sys/stat.h>

using namespace vf;

namespace {

typedef photospline::splinetable<CheckedAlloc<void>> CTable;

std::string tmp_path() { static int n = 0; mkdir("/verif/build/tmp", 0777); return "/verif/build/tmp/c19-" + std::to_string(getpid()) + "-" + std::to_string(n++) + ".fits"; }

CaseResult body(Chooser& ch, Stats* st) {
  CaseResult r;
  QuietStderr q;
  SpecOpts so; so.max_ndim = 6; so.max_order = 5; so.max_terms = 3000; so.ko.strictly_increasing = true;
  int size_class = (int)ch.draw(0, 3);
  so.max_coeffs = size_class == 0 ? 300 : size_class == 1 ? 5000 : 100000;
  if (size_class >= 2) so.ko.extra_max = 25;
  TableSpec s = gen_spec(ch, so);
  // aux keys of all accepted lengths, including maximal key + value
  int naux = ch.coin(1, 3) ? 0 : (int)ch.draw(1, 50);
  // many keys with long (HIERARCH) names: together they outweigh the rounding slack of the estimate, so an estimate
  // that leaves out one KIND of key becomes visible
  bool many_long = gen_version() >= 2 && ch.coin(1, 4);
  if (many_long) naux = 40 + (int)ch.draw(0, 80);
  for (int i = 0; i < naux; i++) {
    int kind = many_long ? 2 + (int)ch.draw(0, 1) : (int)ch.draw(0, 3);
    std::string key, val;
    if (kind == 0) { key = "K" + std::to_string(i); val = std::to_string(i); }
    else if (kind == 1) { key = "KEY" + std::to_string(i); val = std::string(68, (char)('a' + i % 26)); }                       // maximal short-key value
    else if (kind == 2) { key = "A LONG HIERARCH KEY NUMBER " + std::to_string(i); val = std::string(60 - key.size() > 0 ? 60 - key.size() : 1, 'v'); }
    else { key = "LONG KEY " + std::to_string(i) + " " + std::string(40, 'X'); val = std::string(8, 'w'); }                       // long key, short value
    s.aux.push_back({key, val});
  }
  bool conv = ch.coin(2, 3);
  uint32_t nk = conv ? 2 + (uint32_t)ch.draw(0, 6) : 1, dim = conv ? (uint32_t)ch.draw(0, s.ndim() - 1) : 0;
  // keep the convolved table within reach: (k+q-1)! in the library's factorial must not overflow
  if (conv && s.dims[dim].order + nk - 1 > 11) nk = 12 - s.dims[dim].order;
  // a long knot vector in the convolved dimension (hundreds of knots): its size is then comparable with the slack of
  // the estimate, so the order in which convolve() allocates and releases the knot vectors becomes visible
  if (conv && gen_version() >= 2 && ch.coin(1, 3)) {
    size_t others = 1; for (size_t d = 0; d < s.ndim(); d++) if (d != dim) others *= s.dims[d].nfun();
    size_t want = 100 + (size_t)ch.draw(0, 1100);
    while (want > 40 && others * want > 12000) want = want * 2 / 3;
    auto& k = s.dims[dim].knots;
    double step = k.back() - k[k.size() - 2]; if (!(step > 0)) step = 1.0;
    while (k.size() < want) k.push_back(k.back() + step);
    s.dims[dim].ext_lo = k[s.dims[dim].order]; s.dims[dim].ext_hi = k[k.size() - s.dims[dim].order - 1];
    gen_coeffs(ch, s);
    if (st) st->label("convolved_dimension:long_knot_vector");
  }
  std::ostringstream js;
  js << "{\"spec\":" << s.json(4) << ",\"naux\":" << naux << ",\"convolution_knots\":" << nk << ",\"convolution_dimension\":" << dim << "}";
  r.json = js.str();
  if (st) {
    st->label("ndim:" + std::to_string(s.ndim())); st->label(conv ? "convolution:yes" : "convolution:no"); if (naux >= 10) st->label("aux>=10"); if (many_long) st->label("aux:many_long_keys"); st->label("coeffs:" + std::string(s.ncoeff() < 1000 ? "<1e3" : s.ncoeff() < 10000 ? "<1e4" : ">=1e4"));
    if (conv || naux >= 10 || s.ndim() >= 3) { Hasher h; h.add(s.hash()); h.add(naux); h.add(nk); h.add(dim); st->nontriv(h.h); }
    st->sample(r.json);
  }
  std::vector<unsigned char> bytes = spec_to_fits(s);
  std::string path = tmp_path();
  { FILE* f = fopen(path.c_str(), "wb"); if (!f) { r.fail = "harness: cannot write temp file"; return r; } fwrite(bytes.data(), 1, bytes.size(), f); fclose(f); }
  size_t estimate = 0;
  try { estimate = conv ? CTable::estimateMemory(path, nk, dim) : CTable::estimateMemory(path); }
  catch (std::exception& e) { unlink(path.c_str()); r.fail = std::string("estimateMemory threw on a valid file: ") + e.what(); return r; }
  Ledger L;
  std::string fail;
  try {
    CTable t{path, CheckedAlloc<void>(&L)};
    if (conv) {
      std::vector<double> y(nk); double sp = s.dims[dim].knots[1] - s.dims[dim].knots[0];
      for (uint32_t i = 0; i < nk; i++) y[i] = sp * (0.3 * i - 0.2);
      t.convolve(dim, y.data(), nk);
    }
    if (L.peak > estimate) fail = "peak of " + std::to_string(L.peak) + " bytes requested from the allocator exceeds estimateMemory = " + std::to_string(estimate);
    if (st) st->maxi("max_peak_over_estimate", (double)L.peak / (double)estimate);
  } catch (std::exception& e) { fail = std::string("loading / convolving a valid file threw: ") + e.what(); }
  unlink(path.c_str());
  if (fail.empty() && !L.errors.empty()) fail = "allocator ledger: " + L.errors[0];
  if (fail.empty() && !L.live.empty()) fail = std::to_string(L.live.size()) + " blocks (" + std::to_string(L.cur) + " bytes) were never returned to the allocator";
  if (st && L.size_mismatches) st->label("deallocate_size_mismatch", L.size_mismatches);
  L.release_all();
  r.fail = fail;
  return r;
}

}  // namespace

int main(int argc, char** argv) {
  Options o = parse_options(argc, argv);
  Prop a{"estimate_bounds_peak", body, 1.0};
  return run_main(o, "C19", {a});
}
