"""Property table of the verification harness: which binaries decide which property, how many
cases per tier, the stated non-triviality rule and the essential generator classes."""

def U(bin, src, variant="asan", quick=1000, thorough=100000, names=(), **kw):
    d = dict(bin=bin, src=src, variant=variant, cases=dict(quick=quick, thorough=thorough), names=list(names))
    d.update(kw)
    return d

NOT_APPLICABLE = {}

PROPS = {
    "C01": dict(
        level="exploration",
        level_text="Generated-input search against an independent long-double Cox-de Boor reference: every generated (table, point, precision) must agree within kappa*eps*magnitude. Exploration is the right level: the property quantifies over an unbounded input space; the generators are built to hit margins, knots, minimum-length and repeated knot vectors and all three allocation paths, and their class distribution is measured.",
        level_note="Trusts the harness reference (self-tested), the FITS bytes produced by the independent writer, and uninstrumented cfitsio/CHOLMOD. Sampling, not absence.",
        technique="property-based testing (rapidcheck) with a reference-model oracle",
        units=[U("c01_eval", "c01_eval.cpp", quick=40000, thorough=4000000, names=["eval_vs_ref"])],
        rule="rapidcheck draws a table spec (1..9 dims, per-dimension order 0..5 equal or mixed, knot palette: uniform/geometric/"
             "irregular with scale and offset, repeated and clamped knots, minimum-length vectors; coefficient palette) and a producer "
             "(reader / fit / convolve allocation path), then 6 points per table from the point palette (knots, their float neighbours, "
             "both margins, last knot, upper support end); both precisions. A point is non-trivial if some coordinate is not a plain "
             "interior point, or an order is not 2 or 3, or a knot vector has minimum length; distinct = hash(spec, point, precision). "
             "evaluations counts tables.",
        essential={"eval_vs_ref": {"coord:on_knot": 0.2, "coord:low_margin": 0.2, "coord:high_margin": 0.2, "coord:at_ku": 0.2,
                                   "knots:repeated": 0.05, "knots:minlen": 0.05, "producer:P2_fit": 0.02, "producer:P3_convolve": 0.02}},
        assumptions=["long-double Cox-de Boor reference in harness/common/ref.hpp is correct (self-tested: partition of unity, Marsden identity)",
                     "tolerance kappa*eps*M with kappa = 8+4(ndim+sum orders)+2*terms; errors below it are invisible",
                     "cfitsio, CHOLMOD and OpenBLAS are uninstrumented system libraries"],
    ),
    "C02": dict(
        level="exploration",
        level_text="Generated-input search: every derivative request (all bitmask subsets, gradient lanes, derivative-order vectors up to order+1) is compared with the reference derivative recursion; exact-zero and lane-0 identities are checked exactly. Exploration with measured class coverage.",
        level_note="Trusts the reference derivative recursion and the stated tolerance; requests whose partial products leave the working precision's range are skipped and counted.",
        technique="property-based testing (rapidcheck) with a reference-model oracle",
        units=[U("c02_deriv", "c02_deriv.cpp", quick=12000, thorough=1500000, names=["deriv_vs_ref"])],
        rule="C01's table space (1..9 dims, orders 0..5, all three producers; half the tables with strictly increasing knots). Per table 3 points "
             "from the point palette; per point every derivative bitmask (all subsets for ndim<=3, 5 masks incl. the full one above), the "
             "value+gradient call in both precisions (refusal required for ndim>=8) and two derivative-order vectors with entries 0..order+1 "
             "(orders>=2 only on strictly increasing knots). Non-trivial: mixed partial, derivative along an order-0 dimension, derivative order "
             ">=2 or above the spline order, or a margin/knot coordinate in a differentiated call; distinct = hash(spec, point, request). "
             "evaluations counts tables.",
        essential={"deriv_vs_ref": {"mask:mixed": 1.0, "deriv_along_order0": 0.3, "deriv:order>=2": 0.1, "deriv:above_spline_order": 0.1,
                                    "gradient_checked": 1.0, "gradient_via_evaluator": 0.3, "orders:known_mixed_pattern": 0.02, "coord:high_margin": 0.1, "coord:on_knot": 0.1}},
        assumptions=["reference derivative recursion D N_{i,m} = m(D N_{i,m-1}/(k_{i+m}-k_i) - D N_{i+1,m-1}/(k_{i+m+1}-k_{i+1})) on the span chosen by the one-sided convention",
                     "tolerance kappa*eps*M with the cancellation-aware magnitude M"],
    ),
    "C03": dict(
        level="exploration",
        level_text="Differential testing, bit-exact (memcmp on doubles) between generic member functions, the evaluator object, the call operator and the C interface, over tables drawn so that every row of the evaluator dispatch table is hit, in two builds (with/without PHOTOSPLINE_NO_EVAL_TEMPLATES).",
        level_note="The routine actually selected is inferred from (ndim, orders) via the documented dispatch, not observed; floating-point contraction is disabled by the project's own -mno-avx flags.",
        technique="property-based differential testing (rapidcheck)",
        units=[U("c03_paths", "c03_paths.cpp", quick=20000, thorough=3000000, names=["paths"]),
               U("c03_paths_notmpl", "c03_paths.cpp", variant="asan_notmpl", quick=6000, thorough=600000, names=["paths"])],
        rule="tables of 1..9 dims with the order patterns of the property (all 2, all 3, all k, {2,2,2,3,2,2}, {2,2,2,5,2,2}, random mixed), palette "
             "knots and 5 edge/interior points each; for float and double: member ndsplineeval = evaluator.ndsplineeval = evaluator(x,mask) "
             "(= table(x) = C ndsplineeval for float), gradients lane by lane (member = evaluator = C), lane 0 = plain value, ndsplineeval_deriv "
             "member = evaluator<float> = C, centers and flags identical; all compared bit for bit. Built with and without "
             "PHOTOSPLINE_NO_EVAL_TEMPLATES. Non-trivial: a specialised routine was selected or ndim>=5; distinct = hash(spec, point, mask, orders).",
        essential={"paths": {"gradient_compared": 1.0, "deriv_compared": 1.0}},
        assumptions=["which routine get_evaluator selects is recovered from (ndim, orders) by the documented dispatch rule, not observed"],
    ),
    "C04": dict(
        level="exploration",
        level_text="Generated-input search against a linear-scan oracle for acceptance, index range and bracketing, including extreme magnitudes and every knot neighbour; each case runs in a forked child under a watchdog so that non-termination is a failing case.",
        level_note="Non-termination is observed through a 30 s watchdog that must reproduce; NaN coordinates are excluded by the property.",
        technique="property-based testing (rapidcheck, fork-isolated) with a reference-model oracle",
        units=[U("c04_lookup", "c04_lookup.cpp", quick=6000, thorough=600000, names=["lookup"])],
        rule="1..3-d tables whose knot vectors come from the palette extended with huge/tiny magnitudes (2^+-1000 scale, denormal spacing, 1e15 offset), "
             "repeats and minimum length; 48 coordinate vectors per table from: every knot, both float neighbours, between knots, beyond both ends, "
             "+-inf, +-0, denormals, random magnitudes (no NaN). Oracle by linear scan: success iff first<x<=last in every dim; index range; bracket "
             "in the supported range, nearest supported interval outside; call operator 0 on failure and bit-identical to ndsplineeval otherwise. "
             "Fork per case with watchdog (termination). Non-trivial: coordinate on/adjacent to a knot, outside the range or non-finite, or repeated/"
             "extreme knots; distinct = hash(spec, point). evaluations counts tables (x48 lookups).",
        essential={"lookup": {"coord:on_knot": 1.0, "coord:infinite": 1.0, "coord:below_range": 1.0, "coord:above_range": 1.0, "lookup_ok": 3.0,
                              "lookup_refused": 3.0, "knots:extreme": 0.05}},
        assumptions=["a watchdog hit counts only when it reproduces twice more"],
    ),
    "C06": dict(
        level="exploration",
        level_text="Three-directional generated check: an independent byte-level FITS writer feeds the library reader (every getter compared with the spec), the library writer's bytes are parsed by an independent reader against the documented layout, and the library round trip must compare equal, keep every getter and evaluate bit-identically; memory and disk back ends, legacy variants; plus the ten shipped files against committed digests. Self round trips alone cannot see symmetric writer/reader mistakes; the independent codec can.",
        level_note="Trusts harness/common/fits_indep.hpp (FITS subset codec written from the standard, shares no code with cfitsio) and the committed digests in golden/shipped.digest computed on the pinned tree.",
        technique="property-based round-trip and differential testing (rapidcheck) against an independent FITS codec",
        units=[U("c06_fits", "c06_fits.cpp", quick=16000, thorough=600000, names=["roundtrip", "shipped"])],
        rule="tables of 1..9 dims with pairwise different axis lengths, orders 0..5, coefficient palette plus special values (denormal, FLT_MAX, -0, +-inf, "
             "quiet/signalling NaN payloads), non-default extents, non-zero periods, 0..30 auxiliary keys from the accepted alphabet (short and HIERARCH), "
             "legacy variants (single ORDER card, no EXTENTS, no PERIODn), memory or disk on either side. Non-trivial: ndim>=2 with unequal axes, special "
             "values, aux keys or a legacy variant; distinct = hash(spec, aux count, back ends). The 'shipped' sub-property re-reads all ten files of test/test_data.",
        essential={"roundtrip": {"coeff:special_values": 0.3, "aux:present": 0.3, "extents:nondefault": 0.3, "periods:nonzero": 0.3, "legacy:no_EXTENTS": 0.05,
                                 "legacy:single_ORDER": 0.02, "in:disk": 0.1, "out:disk": 0.1}, "shipped": {"shipped_file_checked": 10.0}},
        assumptions=["temp files live under /verif/build/tmp and are unlinked immediately"],
    ),
    "C15": dict(
        level="exploration",
        level_text="For every generated table (1..6 dims, pairwise different axis lengths, orders, extents and periods) ALL permutations are applied for ndim<=5 (40 sampled for ndim 6): every per-dimension attribute must appear in the new order, every coefficient must be found bit for bit at its relocated index, the value at the permuted point must equal the reference sum, and the inverse permutation must restore an equal table; malformed arguments of every kind must be rejected with the table unchanged (deep snapshot), through C++ and the C wrapper.",
        level_note="Exhaustive only in the permutation, per generated table; tables are sampled.",
        technique="property-based testing (rapidcheck) with exhaustive enumeration of permutations per table and a relocation oracle",
        units=[U("c15_permute", "c15_permute.cpp", quick=3000, thorough=900000, names=["permute", "malformed"])],
        rule="permute: spec generator with distinct axes; all ndim! permutations for ndim<=5, 40 drawn for ndim 6. Non-trivial permutation: not an involution, or ndim>=3 "
             "(all axis lengths distinct); distinct = hash(spec, permutation). malformed: empty / too short / too long / duplicate / out of range / SIZE_MAX arguments. "
             "evaluations counts tables; classes count permutations.",
        essential={"permute": {"non_involution": 5.0, "via_C_wrapper": 1.0}, "malformed": {"malformed:duplicate": 0.05, "malformed:too_long": 0.05, "malformed:size_max": 0.05}},
        assumptions=["reference evaluation (ref.hpp) for the same-function check"],
    ),
    "C16": dict(
        level="exploration",
        level_text="Stateful model-based testing: generated histories of up to 40 insertions, overwrites, removals, lookups (C++ and C) and FITS round trips (memory/disk) run against an insertion-ordered map model; the store is compared with the model after every step (order, verbatim values, typed reads, absence) and after every round trip (values modulo trailing blanks, table equality, untouched coefficients). Keys and values are classified into must-accept / must-reject / free zones taken from the documented rules, so the check demands exactly what the property and the documentation state.",
        level_note="In the free zone (dashes/underscores in short keys, FITS structural keywords, quotes in values) either outcome of write_key is accepted, but an accepted entry is then held to the map and round-trip semantics. Histories are sampled.",
        technique="stateful model-based property testing (rapidcheck) with an ordered-map reference model",
        units=[U("c16_aux", "c16_aux.cpp", quick=8000, thorough=4000000, names=["aux_model"])],
        rule="histories of 3..40 operations over a 45-key alphabet (short, 8/9-char boundary, HIERARCH, reserved and reserved-prefix, lower-case/punctuated, FITS structural "
             "keywords, over-long key) and values of int (incl. INT_MIN/MAX), double and string type (empty, 1 char, maximal length, one over, blanks, quotes, printable ASCII). "
             "Non-trivial history: contains an overwrite or a removal that is followed by a round trip; distinct = hash of the operation list.",
        essential={"aux_model": {"overwrite": 0.5, "remove_present": 0.3, "roundtrip": 1.0, "zone:must_reject": 1.0, "zone:must_accept": 1.0, "value:str_maxlen": 0.3,
                                 "value:str_overlong": 0.3, "history:edit_then_roundtrip": 0.3}},
        assumptions=["the documented key rules are those in write_key's error texts and header comments"],
    ),
    "C07": dict(
        level="exploration",
        level_text="Structure-aware fuzzing of the reader: valid spline files (generated or shipped) are damaged by header-card edits (ORDERn, NAXISn, BITPIX, EXTNAME, PERIODn), dropped/duplicated/reordered/resized extensions, non-finite or unsorted knot data, foreign HDUs, raw byte flips and truncation; garbage and non-spline FITS files are included. The oracle is inside the case: a failed read must leave the object empty, reusable (a good buffer is read into the same object and must equal the reference) and destructible; a successful read must satisfy the well-formedness predicate and survive a battery of lookup, evaluation, comparison, re-serialisation and permutation under ASan/UBSan/LSan. Run as a fork-isolated rapidcheck property (shrinkable, seed-pinned) and as a coverage-guided libFuzzer target over the same decoder.",
        level_note="cfitsio is uninstrumented: a wild write inside it is visible only if it crashes. Evaluation of loaded tables is skipped above 24 dimensions (the derivative bitmask is an int). Sampling, not absence.",
        technique="structure-aware fuzzing (rapidcheck fork-isolated twin + libFuzzer) with an in-target semantic oracle",
        engine="rapidcheck+libFuzzer",
        units=[U("c07_reader", "c07_reader.cpp", quick=6000, thorough=300000, names=["reader"]),
               U("c07_reader_fuzz", "c07_reader.cpp", variant="fuzz", kind="fuzz", flags=["-DVF_FUZZ"], quick=160000, thorough=9000000, names=["reader_fuzz"], max_len=24000)],
        rule="a case = base file (generated 1..4-d spec, shipped file, garbage, non-spline FITS) + 0..3 structured mutations + 0..4 byte-level mutations, read through memory "
             "(7/8), disk (1/16) or the C interface (1/16). Non-trivial: at least one mutation and the input got past cfitsio's open into the spline parsing (recognised by "
             "the exception text or success); distinct = hash of the mutation list.",
        essential={"reader": {"read:success": 0.1, "read:failure": 0.2, "reached_spline_parsing": 0.3, "battery:evaluated": 0.2, "via:disk": 0.02, "via:C": 0.02}},
        assumptions=["exception texts of the reader are used only to classify cases as trivial/non-trivial, never for the verdict"],
    ),
    "C05": dict(
        level="exploration",
        level_text="Fuzzing with the oracle inside the target: tables from C01's space through all three allocation paths (reader, fit, convolve), coordinates as arbitrary IEEE doubles (raw bit patterns, NaN payloads, infinities, denormals, knots and their neighbours, beyond both ends), every evaluation entry point (value, bitmask derivatives, gradient float/double, arbitrary derivative up to order 7, evaluator objects, call operators, C wrappers). ASan/UBSan/assertions must stay silent, outputs go to exactly-sized heap buffers with canaries, gradients must be refused exactly for ndim>=8, and every call must return (watchdog). Run as a fork-isolated rapidcheck property and as a coverage-guided libFuzzer target over the same decoder.",
        level_note="Reads of uninitialised memory are not visible to ASan (MSan is unusable here); C01-C03 cover that through stack scribbling. System libraries are uninstrumented.",
        technique="fuzzing (libFuzzer, structure-aware) plus fork-isolated property-based testing (rapidcheck) under ASan/UBSan",
        engine="rapidcheck+libFuzzer",
        units=[U("c05_memsafe", "c05_memsafe.cpp", quick=5000, thorough=80000, names=["memsafe"]),
               U("c05_memsafe_fuzz", "c05_memsafe.cpp", variant="fuzz", kind="fuzz", flags=["-DVF_FUZZ"], quick=100000, thorough=2500000, names=["memsafe_fuzz"], max_len=2048)],
        rule="a case = table (spec generator of C01 with all producers) + 6 coordinate vectors whose entries are drawn from {raw 64-bit pattern, NaN with payload, +-inf, denormal, "
             "knot, knot neighbour, beyond the range, inside palette}. Non-trivial: the lookup succeeded and at least one coordinate is not a plain interior point (margin, knot, "
             "neighbour or non-finite: NaN passes the range test); distinct = hash(spec, point).",
        essential={"memsafe": {"coord:nan": 0.5, "coord:inf": 0.5, "coord:raw_bits": 0.5, "lookup_ok": 0.5, "evaluated": 0.5, "producer:P2_fit": 0.02, "producer:P3_convolve": 0.02}},
        assumptions=["a libFuzzer timeout/oom artifact is load noise unless it reproduces"],
    ),
    "C08": dict(
        level="fault_enumeration",
        level_text="Per generated table the stdio operation trace of a clean write is recorded by an in-process interposer (fopen/fwrite/fseeko/fflush/fclose/ftruncate/remove as cfitsio's disk driver calls them). Crash points: the trace is replayed into a fresh file and the disk reader is run after EVERY operation and at byte granularity inside every write (FITS-block and stdio-chunk boundaries +-1, drawn offsets): the file must be rejected or load equal. Fault sequences: the write is repeated failing exactly the k-th operation for every k (ENOSPC/EIO/EFBIG/EDQUOT, zero or short writes, once or persistently) and under RLIMIT_FSIZE in a forked child (failure surfaces at flush/close): success may be reported only if the file reads back equal, and whatever is left must be rejected or load equal; every open is matched by exactly one close. Enumeration is exhaustive per table at operation granularity; tables are generated (1..5 dims, 1..300 blocks, 0..20 aux keys, C++ and C writers). A second sub-property injects the faults one level lower: the write is done by a helper process under strace's syscall fault injection and the N-th write(2) fails (ENOSPC/EIO/EDQUOT/EFBIG, once or from then on) for every N, which reaches the write(2) calls that stdio issues on its own when fseek or fclose drains its buffer; same oracle. It is skipped with a note when strace cannot trace in the environment.",
        level_note="Any byte prefix of the write stream in issue order is a superset of the states a real crash can leave (stdio flushes its single buffer sequentially and before any seek). The Python binding calls the same write_fits and is not built in this image. Built without sanitizers because the executable itself defines the stdio symbols.",
        technique="fault injection and crash-point enumeration driven by property-based table generation (rapidcheck + stdio interposition + RLIMIT_FSIZE + strace syscall fault injection)",
        units=[U("c08_write", "c08_write.cpp", variant="plain", extra_srcs=["c08_interpose.cpp"], quick=320, thorough=32000, names=["write_faults", "kernel_write_faults"], leaks=False, no_isolate_rerun=True)],
        rule="a case = one table; evaluations counts tables, classes count the crash cuts and injected faults. Non-trivial: a crash cut that leaves a non-empty proper prefix of the "
             "file, an injected fault that was actually reached, or a size limit below the file size; distinct = hash(table, kind, operation index / byte offset / limit).",
        essential={"write_faults": {"cut:operation_boundary": 10.0, "cut:byte_granularity": 10.0, "fault:write": 3.0, "fault:close": 0.5, "fault:flush": 0.5, "fault:open": 0.5,
                                    "rlimit:writer_reported_failure": 2.0, "size:large(>60 blocks)": 0.02, "aux>=17(header_overflows_a_block)": 0.1}},
        assumptions=["cfitsio reaches the file only through the interposed stdio calls (verified: the recorded trace reproduces the file byte for byte, checked by the equal-load of the final state)"],
    ),
    "C12": dict(
        level="exploration",
        level_text="The harness owns the thread schedule: cholesky_solve.c is compiled with its pthread_create/join/mutex/cond/exit calls renamed (-D) to a shim that runs the threads one at a time and makes every call a scheduling point. walk_descents is called on generated line-search problems; for the smallest configurations (1-2 workers, 1-3 blocks) the schedule tree is enumerated exhaustively by stateless DFS (one forked child per schedule), larger configurations (up to 4 workers, more workers than trial steps) are sampled with PCT-priority and uniform random schedules. Every schedule must terminate (a state with unfinished threads and none runnable is a lost wake-up / deadlock) and return outputs (x, H1, residual, return value) bit-identical to the canonical schedule. A ThreadSanitizer build with real threads runs (a) monotonic fits and (b) block3 on dense and cumulative-basis systems with 1,2,3,5,8,16,32 workers, requiring race-free runs and equal results up to rounding (the factor-update strategy depends on the worker count), and (c) walk_descents itself on generated line-search problems (2..32 trial steps) with 1..33 workers, each case in a forked child under a 20 s watchdog, requiring bit-identical outputs for every worker count. In all three, and in the shim, pinning a worker to its CPU may fail (fewer usable CPUs than workers: the executable's own sched_setaffinity stands in for the kernel's), which the line search has to survive.",
        level_note="Interleavings are explored at the granularity of the synchronisation calls; plain-memory races are visible only to the TSan runs (happens-before on the executions that occur) and not inside uninstrumented CHOLMOD. DFS is exhaustive per generated problem when the tree fits the budget (reported per case).",
        technique="schedule fuzzing with harness-owned scheduler: exhaustive stateless DFS for small configurations, PCT/random schedules for larger ones, driven by rapidcheck-generated problems; ThreadSanitizer on real threads",
        units=[U("c12_sched", "c12_sched.cpp", variant="plain", extra_srcs=["vsched.cpp"], flags=["-I{REPO}/src/fitter"], exclude_objs=["cholesky_solve.o"],
                 repo_srcs=[("src/fitter/cholesky_solve.c", ["-Dpthread_create=vs_create", "-Dpthread_join=vs_join", "-Dpthread_mutex_lock=vs_lock", "-Dpthread_mutex_unlock=vs_unlock",
                                                            "-Dpthread_cond_wait=vs_cond_wait", "-Dpthread_cond_broadcast=vs_broadcast", "-Dpthread_exit=vs_exit", "-Dsched_setaffinity=vs_setaffinity"])],
                 quick=64, thorough=32, names=["sched_dfs", "sched_pct"], leaks=False, no_isolate_rerun=True),
               U("c12_tsan", "c12_tsan.cpp", variant="tsan", kind="tsan", flags=["-I{REPO}/src/fitter"], quick=192, thorough=3200, names=["tsan_fits", "tsan_nnls", "tsan_linesearch"], leaks=False, no_isolate_rerun=True, workers=dict(quick=4, thorough=8), timeout=dict(quick=420, thorough=3 * 3600))],
        rule="a case = one line-search problem (1..6 unknowns, 0..6 infeasible components => 2..8 trial steps, 1..4 workers) and a set of schedules: sched_dfs enumerates the tree of "
             "choice sequences (budget 2500 leaves quick / 450000 thorough; 'exhaustive_tree' when the tree was finished), sched_pct runs 300 (3000) PCT/random schedules. evaluations "
             "counts problems; class 'schedules' counts executed schedules. Non-trivial schedule: a worker finished a computation while the coordinator was between unlock and wait, "
             "or at least two context switches; distinct = hash(problem, choice sequence).",
        essential={"tsan_fits": {"fits": 5.0}, "tsan_nnls": {"solves": 5.0}, "tsan_linesearch": {"line_searches": 6.0, "cpus:restricted": 0.3, "trial_steps:17+": 0.1}, "sched_dfs": {"schedules": 50.0, "dfs:exhaustive_within_preemption_bound": 0.12}, "sched_pct": {"schedules": 50.0, "schedule:worker_finished_in_coordinator_window": 1.0}},
        assumptions=["the shim's model of mutexes/condition variables follows POSIX semantics without spurious wake-ups"],
    ),
    "C09": dict(
        level="exploration",
        level_text="Generated fit problems (1..4 dims, orders 0..4, penalty orders 0..order, irregular knots and abscissae, dense and sparse data, weights over 2^+-5 with exact zeros, smoothing 0..1e6, scalar or per-dimension arguments, shuffled listing) are checked against an independent dense long-double assembly of the normal equations: the returned coefficients must satisfy A c = r componentwise to single precision (sound for any conditioning), agree with the reference minimiser when cond<1e4, and obey the metamorphic relations (spline data reproduced at zero smoothing; zero-weight entries and listing order irrelevant; scalar vs per-dimension arguments and the C wrapper bit-identical; tensor-product polynomials of degree below the penalty order in every dimension, sampled inside the fully supported range, reproduced at the data points for every smoothing strength with cond<1e9). Abscissae are listed ascending, descending or shuffled and may coincide with knots.",
        level_note="Well-posedness is by construction (several abscissae per knot interval) and verified: cases whose reference Cholesky fails or whose condition estimate exceeds 1e6 are discarded and counted. The penalty matrix of the reference is built from the textbook derivative-coefficient formula.",
        technique="property-based testing (rapidcheck) with a reference-model oracle (dense long-double normal equations) and metamorphic relations",
        units=[U("c09_fit", "c09_fit.cpp", quick=1600, thorough=600000, names=["objective", "metamorphic", "polynomial"])],
        rule="Non-trivial: ndim>=2, or smoothing>0, or sparse data, or non-unit weights; distinct = hash(orders, penalty orders, smoothing, knots, data, weights).",
        essential={"objective": {"smoothing>0": 0.3, "sparse": 0.1, "weights:varying": 0.2, "listing:shuffled": 0.2, "compared_with_reference_minimiser": 0.2, "scalar_vs_vector_and_C_compared": 0.2},
                   "polynomial": {"smoothing>0": 0.5, "polynomial:non_constant": 0.3, "smoothing>=1e3": 0.15}},
        assumptions=["CHOLMOD/OpenBLAS are uninstrumented system libraries"],
    ),
    "C11": dict(
        level="exploration",
        level_text="Every exported NNLS solver (block3 as used by fit, block, block_updown, Lawson-Hanson in normal-equation and least-squares mode) is run on generated symmetric positive-definite systems passed exactly as fit passes them (full storage, stype 0). Oracles: enumeration of all 2^n active sets in long double for n<=10; constructed optima (b := A x0 - g0 with complementary x0,g0>=0) with exactly-zero and tied components for any n up to 200 (sparse banded) and for dense systems of 40..300 unknowns with 1 or 2 worker threads and a quarter, half or seven eighths of the components positive - the regime in which modify_factor adds or deletes several rows of the Cholesky factor by row updates instead of refactorizing (a guarded hook counter reports whether that path was reached; an essential class); and the KKT conditions on the returned vector with tolerances tied to each solver's stated tolerance. Each solve runs in a forked child so exit(1), aborts and hangs are failing cases. A libFuzzer twin decodes the same small systems from bytes and checks the KKT conditions in the target; with -use_value_profile=1 the solvers' iteration counters become coverage features, which steers it towards inputs on which a solver runs long (it found a non-degenerate instance of the block_updown limit exhaustion and a weakness of the tolerance model within minutes); its seed corpus is a coverage-minimised set from such campaigns.",
        level_note="Tolerances: block3 n*eps*1e5, block/block_updown 1e-6 (their KKT_TOL, absolute), Lawson-Hanson 0 as passed; plus a rounding floor 64*n*eps*max_k(|A||x|+|b|)_k*(1+cond*1e-3) (a solve on an ill-conditioned free set is only forward-accurate to cond*eps). The known non-convergence class (iteration limit exhausted, guarded hook) is excluded and counted for block3 and block_updown on any system and for the plain block solver on degenerate systems only. OMP_NUM_THREADS=2 for block3's line search (C12 owns the schedule dimension).",
        technique="property-based testing (rapidcheck, fork-isolated) with an exhaustive-enumeration reference and constructed-optimum oracle; coverage-guided fuzzing (libFuzzer with value profile) of the small systems with the KKT conditions as in-target oracle",
        units=[U("c11_nnls", "c11_nnls.cpp", quick=6000, thorough=90000, names=["kkt_small", "kkt_large_sparse", "kkt_medium_dense"]),
               U("c11_nnls_fuzz", "c11_nnls.cpp", variant="fuzz", kind="fuzz", flags=["-DVF_FUZZ"], quick=200000, thorough=4000000, names=["kkt_small_fuzz"], max_len=1024, fuzz_flags=["-use_value_profile=1"])],
        rule="systems A = M'M (M random dense/sparse/banded with sqrt(delta) I rows, delta in 1e-6..1, column scaling 2^+-15 for the badly-scaled class); b random or constructed "
             "from a chosen optimum. Non-trivial: the minimiser has at least one zero and one positive component; distinct = hash(solver, A, b).",
        essential={"kkt_small": {"solver:block3": 0.1, "solver:block": 0.1, "solver:block_updown": 0.1, "solver:lawson_hanson_normal": 0.1, "solver:lawson_hanson_lsq": 0.1,
                                 "class:degenerate_constructed": 0.1, "class:badly_scaled": 0.1, "active_set:mixed": 0.3},
                   "kkt_medium_dense": {"factor:multi_row_update_path": 0.03, "solver:block3": 0.15, "solver:block_updown": 0.15}},
        assumptions=["uniqueness of the minimiser (A positive definite by construction)"],
    ),
    "C10": dict(
        level="exploration",
        level_text="Generated monotonic fits (1..3 dims, orders 1..4, every choice of monotonic dimension, adversarial data shapes: decreasing, oscillating, noisy, step, constant; sparse; varying and zero weights; smoothing 0..1e6) must return coefficients that are non-decreasing along the monotonic dimension in every fibre (compared exactly in float) and a non-negative derivative along it in the fully supported region; when the data come from a spline with positive increasing coefficients (constraint inactive) the monotonic fit must reproduce the unconstrained solution to single precision. Each fit runs in a forked child under a watchdog. A third sub-property keeps non-zero smoothing (1e-3..3, in the monotonic and/or the other dimensions, penalty orders 0..order): when the unconstrained minimiser of the same penalised objective (dense long-double reference) is non-negative and increasing with a margin, the monotonic fit has to return it to single precision. The data are multiplied by 1e-12..1e4 in the first sub-property (the solver's tolerances are absolute).",
        level_note="Whether the constraint is active is decided from the independent long-double reference solution of C09. Thread schedules are C12's dimension (OMP_NUM_THREADS=2 here).",
        technique="property-based testing (rapidcheck, fork-isolated) with an invariant oracle and a reference-model oracle for the inactive case",
        units=[U("c10_mono", "c10_mono.cpp", quick=900, thorough=500000, names=["monotone_any_data", "inactive_constraint", "inactive_constraint_smoothed"])],
        rule="Non-trivial: the constraint is active (the unconstrained reference solution violates non-negativity or monotonicity), or the inactive-constraint sub-property; "
             "distinct = hash(monodim, orders, knots, data, weights).",
        essential={"monotone_any_data": {"constraint:active": 0.2, "monodim:interior": 0.03, "sparse": 0.1}, "inactive_constraint": {"constraint:inactive": 0.9},
                   "inactive_constraint_smoothed": {"smoothing:other_dimension": 0.2, "smoothing:monotonic_dimension": 0.4}},
        assumptions=["reference normal equations of C09 (fitgen.hpp)"],
    ),
    "C13": dict(
        level="exploration",
        level_text="A valid small fit problem is damaged by 1..3 invalidations drawn from the property's catalogue (weights / coordinate / order / knot-vector / smoothing / penalty container lengths off by one or empty, data index beyond its range, range beyond the coordinate vector, unsorted knots, too few knots, huge orders, penalty order above the spline order, monotonic dimension out of range) or left valid (20 %); the call runs in a forked child under ASan/UBSan. Listed inconsistencies must throw (C wrapper: non-zero), leave the table empty and reusable (a following valid fit must equal a fresh object's result bit for bit); a penalty order above the order must be rejected or act as a vanishing penalty (compared with the zero-smoothing fit); valid arguments must not be rejected.",
        level_note="The C wrapper is exercised only with invalidations it can express (it takes lengths from the data). Empty data sets are not generated (not in the catalogue).",
        technique="property-based testing (rapidcheck, fork-isolated under ASan/UBSan) with a must-reject / must-accept oracle",
        units=[U("c13_fitargs", "c13_fitargs.cpp", quick=6000, thorough=600000, names=["fit_arguments"])],
        rule="Non-trivial: exactly one invalidation (so a missing check cannot be masked by another one firing first); distinct = hash(invalidation kind, data, knots, monodim).",
        essential={"fit_arguments": {"valid_arguments": 0.1, "inv:range_beyond_coords": 0.03, "inv:too_few_knots": 0.03, "inv:penalty_above_order": 0.03, "inv:penalty_above_order_shared_later_dim": 0.004, "inv:index_beyond_range": 0.03,
                                     "inv:knots_unsorted": 0.02, "inv:huge_order": 0.02, "inv:monodim_out_of_range": 0.03, "inv:weights_length": 0.03, "via:C": 0.03}},
        assumptions=["reference normal equations (fitgen.hpp) decide whether a valid problem is well-posed"],
    ),
    "C14": dict(
        level="exploration",
        level_text="Generated tables (1..4 dims, order 0..5 in the convolved dimension, any dimension index, irregular knots or a common grid with the kernel) are convolved with generated kernels of 2..6 increasing knots (symmetric, one-sided, shifted; wider and narrower than the knot spacing). Oracle: the new order and the sorted pairwise-sum knot vector bit for bit, untouched other dimensions, well-formed strides/counts; and at 10 points across the new knot range (interior, margins, knots) the table value must equal the convolution integral of the ORIGINAL reference surface with the unit-area kernel B-spline, integrated exactly by 8-point Gauss-Legendre between all breakpoints.",
        level_note="Tolerance 32*eps_float*max|coeff| (measured worst case 0.5); the convolved dimension uses irregular knots with spacing ratio <= 12 and offsets in [-3,0] because blossoming through divided differences cannot deliver single precision when the spacing is tiny compared with the knot values (e.g. offset 1e6, spacing 1e-6). The largest observed error per (order, n) is in the evidence.",
        technique="property-based testing (rapidcheck, fork-isolated) with a quadrature reference oracle",
        units=[U("c14_convolve", "c14_convolve.cpp", quick=1600, thorough=750000, names=["convolution"])],
        rule="Non-trivial: order>=1 with >=3 kernel knots, or a convolved dimension that is not the last one of a >=2-d table, or table and kernel on a common grid (repeated new knots); "
             "distinct = hash(spec, dimension, kernel knots).",
        essential={"convolution": {"order:0": 0.05, "order:2": 0.05, "order:5": 0.03, "kernel:on_grid": 0.1, "dim:not_last": 0.1, "kernel_knots:2": 0.05, "kernel_knots:6": 0.05}},
        assumptions=["reference evaluation (ref.hpp) of the original table; Gauss-Legendre nodes to 25 digits"],
    ),
    "C17": dict(
        level="exploration",
        level_text="Generated tables (1..4 dims, mixed orders 0..4, strictly increasing knots, 30-95 % zero coefficients) are evaluated on generated grids (1..12 abscissae per axis: unsorted, repeated, on knots, outside the range on both sides, single-point axes) through C++ grideval and the C wrapper (+ndsparse_destroy, under LeakSanitizer). The index ranges must equal the grid lengths, every listed index must be inside, entries with equal index are summed, and for every grid point strictly inside the knot range the listed value (0 if unlisted) must equal pointwise ndsplineeval<double> within 1e5*eps*magnitude.",
        level_note="Nothing is asserted about grid points on or outside the first/last knot beyond index validity and memory safety (the half-open conventions differ there and the property excludes them).",
        technique="property-based differential testing (rapidcheck) of grid vs pointwise evaluation under ASan/LSan",
        units=[U("c17_grideval", "c17_grideval.cpp", quick=2500, thorough=400000, names=["grideval"])],
        rule="Non-trivial: ndim>=2 and the grid has at least one outside point and one repeated or unsorted abscissa; distinct = hash(spec, grid).",
        essential={"grideval": {"grid:has_outside_points": 0.3, "grid:unsorted_or_repeated": 0.3, "grid:single_point_axis": 0.1, "via:C": 0.2, "interior_point:unlisted": 0.5, "interior_point:listed": 2.0}},
        assumptions=["magnitude of the summed terms from the reference evaluation (ref.hpp)"],
    ),
    "C19": dict(
        level="exploration",
        level_text="Generated table files (independent writer; 1..6 dims, mixed orders 0..5, up to 1e5 coefficients, 0..50 auxiliary keys of all accepted lengths incl. maximal key+value) are loaded into splinetable<CheckedAlloc> from their path and optionally convolved exactly as declared to estimateMemory (2..8 kernel knots, any dimension). The allocator's ledger gives the peak number of bytes simultaneously requested, which must not exceed the estimate; the ledger must also balance (every block returned exactly once).",
        level_note="Only requests made through the table's allocator are counted, as the property states (convolve's temporaries use operator new). A fixed-size arena's own bookkeeping overhead is outside the estimate's scope.",
        technique="property-based testing (rapidcheck) with a byte-counting allocator as measurement oracle",
        units=[U("c19_estimate", "c19_estimate.cpp", quick=2500, thorough=45000, names=["estimate_bounds_peak"])],
        rule="Non-trivial: a convolution is requested, or >=10 auxiliary keys, or ndim>=3; distinct = hash(spec, aux count, kernel knots, dimension).",
        essential={"estimate_bounds_peak": {"convolution:yes": 0.4, "aux>=10": 0.2, "coeffs:>=1e4": 0.006}},
        assumptions=["sizeof(splinetable) is part of the estimate but not of the measured requests"],
    ),
    "C20": dict(
        level="fault_enumeration",
        level_text="Stateful model-based testing with fault enumeration: generated histories of up to 25 operations over 1..3 splinetable<CheckedAlloc> objects (construction from good / missing / corrupt paths, reads from memory and disk incl. into populated objects, valid and invalid fits, key writes/removals, convolution, valid and invalid permutations, move construction and assignment incl. self, comparison, writes to memory / disk / unwritable paths / from empty tables, evaluation, destruction) run against an abstract model of every object. After every step every getter of every object must match its model, a failed operation must have left its object unchanged or empty, moved-from objects must be empty, and the allocator ledger must show no foreign or double free; at the end every block must have been returned exactly once. Each history is then re-run once per allocation position k (all positions up to 300) with std::bad_alloc injected at allocation k, under the same invariants. Fork-isolated under ASan/UBSan.",
        level_note="Operations are only generated inside their documented preconditions or the must-reject catalogues of C07/C13/C15/C16 (e.g. no convolve on an empty table). Allocation failures are injected only through the allocator template parameter (operator new inside the library is not failed).",
        technique="stateful model-based property testing (rapidcheck, fork-isolated) with exhaustive single allocation-failure injection per history",
        units=[U("c20_lifecycle", "c20_lifecycle.cpp", quick=700, thorough=100000, names=["lifecycle"])],
        rule="a case = one history; evaluations counts histories, 'injection_positions' the re-runs with an injected failure. Non-trivial: a run in which the injected allocation failure "
             "was actually reached (distinct = hash(history, k)); class history:failure_then_further_use counts histories where a failed operation is followed by further use.",
        essential={"lifecycle": {"injections_reached": 20.0, "history:failure_then_further_use": 0.3, "op:move_assign": 0.3, "op:convolve": 0.3, "op:fit_valid": 0.3, "op:read_mem_bad": 0.3}},
        assumptions=["the abstract model learns coefficient values after fit/convolve by snapshot (they are checked by C09/C14), and predicts everything else"],
    ),
    "C18": dict(
        level="exploration",
        level_text="Stateful differential testing of the C interface: generated sequences of up to 30 calls over 1..3 handles (init, free incl. double free, read of good / missing / damaged files into empty and occupied handles, read_mem, write to writable / unwritable paths and to memory incl. an occupied destination, get/read/write key with present, absent, reserved and malformed keys, every getter, tablesearchcenters and the three evaluators, convolve, glamfit with valid and invalid arguments, grideval + ndsparse_destroy, valid and invalid permutations) are mirrored call by call on C++ twin objects. The C return must signal failure exactly when the C++ operation throws or returns failure; after every call every getter and auxiliary key of every handle must equal its twin (bit for bit for evaluations); the case runs in a forked child (an escaping exception terminates it = failing case) and LeakSanitizer runs after every case.",
        level_note="Only handles in a state the header allows are used (initialised, or freed to NULL and then only init/free/read); gradients are only requested for tables the layout supports because the void wrapper cannot report failure.",
        technique="stateful differential property testing (rapidcheck, fork-isolated, ASan/LSan) against a C++ twin",
        units=[U("c18_cinter", "c18_cinter.cpp", quick=2000, thorough=120000, names=["cinter_twin"])],
        rule="Non-trivial history: contains a failing call followed by a successful use of the same handle, or a grid evaluation; distinct = hash of the call list.",
        essential={"cinter_twin": {"history:failure_then_use_or_grideval": 0.3, "op:read_missing": 0.2, "op:glamfit_invalid": 0.2, "op:permute_invalid": 0.05, "op:grideval": 0.05, "op:read_key_int": 0.05, "op:free": 0.3}},
        assumptions=["the C++ twin is driven through the public C++ API only"],
    ),
}
