"""Property table of the verification harness: which binaries decide which property, how many
cases per tier, the stated non-triviality rule and the essential generator classes."""

def U(bin, src, variant="asan", quick=1000, thorough=100000, names=(), **kw):
    d = dict(bin=bin, src=src, variant=variant, cases=dict(quick=quick, thorough=thorough), names=list(names))
    d.update(kw)
    return d

PROPS = {
    "C01": dict(
        level="exploration",
        units=[U("c01_eval", "c01_eval.cpp", quick=40000, thorough=4000000, names=["eval_vs_ref"])],
        rule="rapidcheck draws a table spec (1..9 dims, per-dimension order 0..5 equal or mixed, knot palette: uniform/geometric/"
             "irregular with scale and offset, repeated and clamped knots, minimum-length vectors; coefficient palette) and a producer "
             "(reader / fit / convolve allocation path), then 6 points per table from the point palette (knots, their float neighbours, "
             "both margins, last knot, upper support end); both precisions. A point is non-trivial if some coordinate is not a plain "
             "interior point, or an order is not 2 or 3, or a knot vector has minimum length; distinct = hash(spec, point, precision). "
             "evaluations counts tables.",
        essential={"eval_vs_ref": {"coord:on_knot": 0.2, "coord:low_margin": 0.2, "coord:high_margin": 0.2, "coord:at_ku": 0.2,
                                   "knots:repeated": 0.05, "knots:minlen": 0.05, "producer:P2_fit": 0.02, "producer:P3_convolve": 0.02}},
        assumptions=["long-double Cox-de Boor reference in harness/common/ref.hpp is correct (self-tested: partition of unity, Marsden identity)",
                     "tolerance kappa*eps*M with kappa = 8+4(ndim+sum orders)+2*terms; errors below it are invisible",
                     "cfitsio, CHOLMOD and OpenBLAS are uninstrumented system libraries"],
    ),
}
