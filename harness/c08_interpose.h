// shared state of the C08 stdio interposer
#pragma once
#include <cstdio>
#include <string>
#include <vector>
namespace c08 {
enum OpKind { OP_OPEN, OP_WRITE, OP_SEEK, OP_FLUSH, OP_CLOSE, OP_TRUNCATE, OP_REMOVE, OP_RENAME };
struct Op { OpKind kind; long long offset; std::vector<unsigned char> data; long long len; };
struct State {
  bool active = false, record = false;
  std::string target;
  FILE* fp = nullptr;
  long nops = 0;          // operations seen on the target so far
  long fail_at = 0;       // 1-based index of the operation to fail (0 = none)
  bool sticky = false;    // all later operations fail as well (disk stays full)
  bool failed = false; OpKind failed_kind = OP_OPEN;
  int err = 28;           // errno to report (ENOSPC)
  size_t partial_bytes = 0;
  int opens = 0, closes = 0, removes = 0;
  std::vector<Op> trace;
  void reset(const std::string& t) { *this = State(); target = t; }
};
State& state();
inline const char* op_name(OpKind k) { static const char* n[] = {"open", "write", "seek", "flush", "close", "truncate", "remove", "rename"}; return n[k]; }
}  // namespace c08
