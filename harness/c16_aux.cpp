// C16 — auxiliary keys behave as an insertion-ordered string map that survives serialisation.
// Stateful model-based test: model = vector<(key, value)>; operations with generated arguments;
// the model and the table are compared after every step.
#include "common/vf_rc.hpp"
#include "common/libtable.hpp"
#include <photospline/cinter/splinetable.h>
#include <climits>
#include <sys/stat.h>

using namespace vf;

namespace {

enum Zone { ACCEPT, REJECT, FREE };
struct KeyInfo { std::string key; Zone zone; const char* cls; };

std::vector<KeyInfo> make_keys() {
  std::vector<KeyInfo> k = {
      {"A", ACCEPT, "short"}, {"KEY1", ACCEPT, "short"}, {"ABCDEFGH", ACCEPT, "short8"}, {"X9", ACCEPT, "short"}, {"Q", ACCEPT, "short"}, {"AB12CD34", ACCEPT, "short8"},
      {"LONGKEYNAME1", ACCEPT, "long"}, {"A LONG KEY", ACCEPT, "long"}, {"ABCDEFGHI", ACCEPT, "long9"},
      {"THIS IS A RATHER LONG HIERARCH KEY WITH DIGITS 0123456789", ACCEPT, "long_big"},
      {"ORDER0", REJECT, "reserved"}, {"ORDER", REJECT, "reserved"}, {"NAXIS", REJECT, "reserved"}, {"NAXIS1", REJECT, "reserved"}, {"TYPE", REJECT, "reserved"},
      {"TYPEX", REJECT, "reserved_prefix"}, {"PERIODIC", REJECT, "reserved_prefix"}, {"PERIOD0", REJECT, "reserved"}, {"COMMENT", REJECT, "reserved"},
      {"BITPIX", REJECT, "reserved"}, {"SIMPLE", REJECT, "reserved"}, {"EXTEND", REJECT, "reserved"}, {"COMMENTARY X", REJECT, "reserved_prefix"},
      {"abc", REJECT, "malformed"}, {"Abc", REJECT, "malformed"}, {"A B", REJECT, "malformed"}, {"A.B", REJECT, "malformed"}, {"A=B", REJECT, "malformed"},
      {"KEY$", REJECT, "malformed"}, {"long key lower", REJECT, "malformed"}, {"LONG KEY WITH=EQUALS", REJECT, "malformed"}, {"LONGKEYlower", REJECT, "malformed"},
      {"A-B", FREE, "free_dash"}, {"A_B", FREE, "free_dash"}, {"END", FREE, "free_structural"}, {"HISTORY", FREE, "free_structural"}, {"CONTINUE", FREE, "free_structural"},
      {"", FREE, "free_structural"}, {"EXTNAME", FREE, "free_structural"}, {"BSCALE", FREE, "free_structural"}, {"BZERO", FREE, "free_structural"},
      {"BLANK", FREE, "free_structural"}, {"XTENSION", FREE, "free_structural"}, {"TWO  BLANKS KEY", FREE, "free_long"},
      {"A VERY VERY VERY VERY VERY VERY VERY VERY VERY VERY VERY LONG KEY OF 75 CHARS", FREE, "free_overlong_key"},
      // (appended later, so that the indices of the keys above - and with them older replays - stay valid)
      // the HIERARCH convention's own keyword and everything that starts with it: cfitsio strips the prefix on the way
      // out, so such a key cannot survive a round trip and is reserved
      {"HIERARCH", REJECT, "reserved"}, {"HIERARCH FOO BAR", REJECT, "reserved_prefix"}, {"HIERARCHY", REJECT, "reserved_prefix"}, {"HIERARCH A LONG KEY", REJECT, "reserved_prefix"},
      // prefixes of one another, short and long
      {"LEVEL1", ACCEPT, "short"}, {"LEVEL10", ACCEPT, "short"}, {"LONGKEYNAME", ACCEPT, "long"},
  };
  return k;
}
const std::vector<KeyInfo>& keys() { static std::vector<KeyInfo> k = make_keys(); return k; }

size_t value_limit(const std::string& key) { return key.size() <= 8 ? 68 : (67 > key.size() ? 67 - key.size() : 0); }

std::string rtrim(std::string s) { while (!s.empty() && s.back() == ' ') s.pop_back(); return s; }

struct Entry { std::string key, value; bool padded_ok; char type; long ival; };

struct Model {
  std::vector<Entry> e;
  int find(const std::string& k) const { for (size_t i = 0; i < e.size(); i++) if (e[i].key == k) return (int)i; return -1; }
};

std::string compare(const Table& t, const Model& m) {
  if (t.get_naux_values() != m.e.size()) return "store holds " + std::to_string(t.get_naux_values()) + " entries, model " + std::to_string(m.e.size());
  for (size_t i = 0; i < m.e.size(); i++) {
    const Entry& en = m.e[i];
    if (en.key != t.get_aux_key(i)) return "entry #" + std::to_string(i) + " has key '" + t.get_aux_key(i) + "', model '" + en.key + "' (insertion order lost?)";
    const char* v = t.get_aux_value(en.key.c_str());
    if (!v) return "lookup of present key '" + en.key + "' reports absence";
    bool same = en.padded_ok ? rtrim(v) == rtrim(en.value) : en.value == v;
    if (!same) return "value of '" + en.key + "' is '" + v + "', model '" + en.value + "'";
    std::string sv;
    if (!t.read_key(en.key.c_str(), sv) || sv != v) return "read_key<string> disagrees with get_aux_value for '" + en.key + "'";
    if (en.type == 'i') {
      int iv = 0;
      if (!t.read_key(en.key.c_str(), iv) || iv != en.ival) return "read_key<int> of '" + en.key + "' does not recover " + std::to_string(en.ival);
    } else if (en.type == 'd') {
      double dv = 0;
      if (!t.read_key(en.key.c_str(), dv) || dv != strtod(en.value.c_str(), 0)) return "read_key<double> of '" + en.key + "' does not return the value denoted by '" + en.value + "'";
    }
  }
  return "";
}

struct Val { char type; std::string text; long ival; double dval; std::string cls; };
Val gen_val(Chooser& ch, const std::string& key) {
  Val v; size_t lim = value_limit(key);
  switch (ch.draw(0, 9)) {
    case 0: v.type = 'i'; v.ival = ch.range(-1000, 1000); v.cls = "int"; break;
    case 1: v.type = 'i'; v.ival = ch.coin(1, 2) ? INT_MAX : INT_MIN; v.cls = "int_extreme"; break;
    case 2: { v.type = 'd'; int m = ch.range(-100000, 100000); int e = ch.range(-30, 30); v.dval = (double)m * pow(10.0, e) / 7.0; v.cls = "double"; break; }
    case 3: v.type = 's'; v.text = ""; v.cls = "str_empty"; break;
    case 4: v.type = 's'; v.text = std::string(1, (char)('!' + ch.draw(0, 80))); if (v.text == "'") v.text = "x"; v.cls = "str_1char"; break;
    case 5: { v.type = 's'; v.cls = "str_maxlen"; for (size_t i = 0; i < lim; i++) v.text += (char)('A' + (i % 26)); break; }
    case 6: { v.type = 's'; v.cls = "str_overlong"; for (size_t i = 0; i < lim + 1 + ch.draw(0, 3); i++) v.text += (char)('a' + (i % 26)); break; }
    case 7: { v.type = 's'; v.cls = "str_blanks"; v.text = std::string(ch.draw(0, 2), ' ') + "in ner" + std::string(ch.draw(0, 2), ' '); break; }
    case 8: {
      v.type = 's'; v.cls = "str_quote";
      if (gen_version() >= 2 && ch.coin(2, 3)) {
        // quotes anywhere, in particular first and last, in values of every length up to the limit (a quote takes two
        // characters of the card, so long ones may be refused - acceptance of quoted values is free - but whatever
        // is accepted has to come back)
        size_t n = 1 + ch.draw(0, lim ? lim - 1 : 0);
        int where = (int)ch.draw(0, 3);  // 0 trailing, 1 leading, 2 both, 3 scattered only
        for (size_t i = 0; i < n; i++) v.text += ch.coin(1, 8) ? '\'' : (char)('a' + (i % 26));
        if (where == 0 || where == 2) v.text.back() = '\'';
        if (where == 1 || where == 2) v.text.front() = '\'';
        if (v.text.find('\'') == std::string::npos) v.text[n / 2] = '\'';
        v.cls = where == 0 || where == 2 ? "str_quote_trailing" : "str_quote_generated";
      } else { static const char* q[] = {"it's", "'", "''", "a'b'c", "'lead", "trail'"}; v.text = q[ch.draw(0, 5)]; }
      break; }
    default: {
      v.type = 's'; v.cls = "str_printable";
      size_t n = 1 + ch.draw(0, lim ? std::min<size_t>(lim - 1, 30) : 0);
      for (size_t i = 0; i < n; i++) { char c = (char)(' ' + ch.draw(0, 94)); if (c == '\'') c = '"'; v.text += c; }
    }
  }
  if (v.type == 'i') { std::ostringstream o; o << (int)v.ival; v.text = o.str(); }
  if (v.type == 'd') { std::ostringstream o; o << v.dval; v.text = o.str(); }
  return v;
}

std::string tmp_path() {
  static int n = 0; mkdir("/verif/build/tmp", 0777);
  return "/verif/build/tmp/c16-" + std::to_string(getpid()) + "-" + std::to_string(n++) + ".fits";
}

CaseResult body(Chooser& ch, Stats* st) {
  CaseResult r;
  QuietStderr q;
  TableSpec s;
  { DimSpec d; d.order = 1; d.knots = {0, 1, 2, 3, 4}; d.ext_lo = 1; d.ext_hi = 3; s.dims.push_back(d); if (ch.coin(1, 2)) { DimSpec e; e.order = 0; e.knots = {0, 1, 3}; e.ext_lo = 0; e.ext_hi = 3; s.dims.push_back(e); } }
  s.coeff.resize(s.ncoeff());
  for (size_t i = 0; i < s.coeff.size(); i++) s.coeff[i] = 0.5f + (float)i;
  std::unique_ptr<Table> t(new Table());
  build_p1(*t, s);
  Model m;
  int nops = 3 + (int)ch.draw(0, 37);
  std::ostringstream js; js << "{\"ops\":[";
  bool had_overwrite = false, had_remove = false, rt_after = false; int roundtrips = 0;
  Hasher hh;
  for (int op = 0; op < nops && r.fail.empty(); op++) {
    int kind = (int)ch.draw(0, 9);
    if (op) js << ",";
    if (kind <= 4) {  // write
      const KeyInfo& ki = keys()[ch.draw(0, keys().size() - 1)];
      // bias towards keys already present (overwrite)
      std::string key = ki.key; Zone zone = ki.zone; std::string kcls = ki.cls;
      if (!m.e.empty() && ch.coin(1, 3)) { key = m.e[ch.draw(0, m.e.size() - 1)].key; for (auto& k2 : keys()) if (k2.key == key) { zone = k2.zone; kcls = k2.cls; } }
      Val v = gen_val(ch, key);
      bool use_c = v.type != 's' && ch.coin(1, 4);
      js << "{\"op\":\"write\",\"key\":" << jstr(key) << ",\"type\":\"" << v.type << "\",\"value\":" << jstr(v.text) << (use_c ? ",\"via\":\"C\"" : "") << "}";
      hh.adds("w" + key + v.text);
      bool threw = false;
      std::string what;
      if (use_c) {
        struct splinetable ct; ct.data = t.get();
        int iv = (int)v.ival;
        int rc = v.type == 'i' ? splinetable_write_key(&ct, SPLINETABLE_INT, key.c_str(), &iv) : splinetable_write_key(&ct, SPLINETABLE_DOUBLE, key.c_str(), &v.dval);
        threw = rc != 0;
      } else {
        try {
          if (v.type == 'i') t->write_key(key.c_str(), (int)v.ival);
          else if (v.type == 'd') t->write_key(key.c_str(), v.dval);
          else t->write_key(key.c_str(), v.text);
        } catch (std::exception& e) { threw = true; what = e.what(); }
      }
      bool overlong = v.text.size() > value_limit(key);
      bool quote = v.text.find('\'') != std::string::npos;
      Zone eff = zone;
      if (zone == ACCEPT && overlong) eff = REJECT;
      if (zone == ACCEPT && quote) eff = FREE;
      if (overlong) eff = REJECT;  // over-long values are rejected whatever the key
      if (st) { st->label(std::string("key:") + kcls); st->label("value:" + v.cls); st->label(eff == REJECT ? "zone:must_reject" : eff == ACCEPT ? "zone:must_accept" : "zone:free"); }
      if (eff == REJECT && !threw) { r.fail = "write_key accepted what must be rejected: key '" + key + "' (" + kcls + ") value '" + v.text + "'"; break; }
      if (eff == ACCEPT && threw) { r.fail = "write_key rejected an admissible key/value: key '" + key + "' value '" + v.text + "': " + what; break; }
      if (!threw) {
        int at = m.find(key);
        Entry en{key, v.text, false, v.type, v.ival};
        if (at >= 0) { m.e[at] = en; had_overwrite = true; if (st) st->label("overwrite"); } else m.e.push_back(en);
        if (st && eff == FREE) st->label("free_zone_accepted");
      }
    } else if (kind == 5) {  // remove
      std::string key = (!m.e.empty() && ch.coin(2, 3)) ? m.e[ch.draw(0, m.e.size() - 1)].key : keys()[ch.draw(0, keys().size() - 1)].key;
      js << "{\"op\":\"remove\",\"key\":" << jstr(key) << "}";
      hh.adds("r" + key);
      int at = m.find(key);
      bool res = t->remove_key(key.c_str());
      if (res != (at >= 0)) { r.fail = std::string("remove_key('") + key + "') returned " + (res ? "true" : "false") + " but the key was " + (at >= 0 ? "present" : "absent"); break; }
      if (at >= 0) { m.e.erase(m.e.begin() + at); had_remove = true; if (st) st->label("remove_present"); } else if (st) st->label("remove_absent");
    } else if (kind == 6) {  // lookup of an absent or present key, incl. through C
      std::string key = keys()[ch.draw(0, keys().size() - 1)].key;
      js << "{\"op\":\"lookup\",\"key\":" << jstr(key) << "}";
      int at = m.find(key);
      struct splinetable ct; ct.data = t.get();
      const char* v1 = t->get_aux_value(key.c_str()); const char* v2 = splinetable_get_key(&ct, key.c_str());
      std::string sv; int iv; double dv;
      if ((v1 != nullptr) != (at >= 0) || v1 != v2) { r.fail = "lookup of '" + key + "' reports " + (v1 ? "presence" : "absence") + ", model says " + (at >= 0 ? "present" : "absent"); break; }
      if (at < 0 && (t->read_key(key.c_str(), sv) || t->read_key(key.c_str(), iv) || t->read_key(key.c_str(), dv))) { r.fail = "read_key of absent key '" + key + "' returned true"; break; }
      if (st) st->label(at >= 0 ? "lookup_present" : "lookup_absent");
    } else {  // FITS round trip (memory, sometimes disk); the history continues on the re-read table
      bool disk = ch.coin(1, 4);
      js << "{\"op\":\"roundtrip\",\"via\":\"" << (disk ? "disk" : "memory") << "\"}";
      hh.adds(disk ? "D" : "M");
      std::unique_ptr<Table> t2(new Table());
      try {
        if (disk) { std::string p = tmp_path(); try { t->write_fits(p); t2->read_fits(p); } catch (...) { unlink(p.c_str()); throw; } unlink(p.c_str()); }
        else { auto buf = t->write_fits_mem(); try { t2->read_fits_mem(buf.first, buf.second); } catch (...) { free(buf.first); throw; } free(buf.first); }
      } catch (std::exception& e) { r.fail = std::string("round trip failed although every stored entry had been accepted: ") + e.what(); break; }
      for (auto& en : m.e) en.padded_ok = true;
      std::string e = compare(*t2, m);
      if (!e.empty()) { r.fail = "after FITS round trip: " + e; break; }
      if (!(*t == *t2)) { r.fail = "table does not compare equal after the round trip with auxiliary keys"; break; }
      if (memcmp(t2->get_coefficients(), s.coeff.data(), s.coeff.size() * 4) != 0) { r.fail = "coefficients changed by a round trip with auxiliary keys"; break; }
      t = std::move(t2);
      roundtrips++;
      if (had_overwrite || had_remove) rt_after = true;
      if (st) st->label("roundtrip");
    }
    if (r.fail.empty()) { std::string e = compare(*t, m); if (!e.empty()) r.fail = "after op #" + std::to_string(op) + ": " + e; }
  }
  js << "]}";
  r.json = js.str();
  if (st) {
    st->label("ops", nops);
    if (rt_after) { st->label("history:edit_then_roundtrip"); st->nontriv(hh.h); }
    st->sample(r.json);
  }
  return r;
}

}  // namespace

int main(int argc, char** argv) {
  Options o = parse_options(argc, argv);
  Prop a{"aux_model", body, 1.0};
  return run_main(o, "C16", {a});
}
