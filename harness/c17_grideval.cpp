// C17 — grid evaluation agrees with pointwise evaluation.
#include <cfloat>
#include "common/vf_rc.hpp"
#include "common/libtable.hpp"
#include <photospline/cinter/splinetable.h>

using namespace vf;

namespace {

CaseResult body(Chooser& ch, Stats* st) {
  CaseResult r;
  QuietStderr q;
  SpecOpts so; so.max_ndim = 4; so.max_order = 4; so.max_coeffs = 1500; so.max_terms = 300; so.ko.strictly_increasing = true; so.ko.extra_max = 5; so.force_coeff_kind = 3;  // sparse
  TableSpec s = gen_spec(ch, so);
  // 30-95 % zeros but not all zero
  uint64_t salt = ch.draw(0, 0xffff); int keep = 5 + (int)ch.draw(0, 65);
  bool any = false;
  for (size_t i = 0; i < s.coeff.size(); i++) { if ((int)(mix64(salt ^ mix64(i)) % 100) >= keep) s.coeff[i] = 0; else if (s.coeff[i] == 0) s.coeff[i] = 1.5f; if (s.coeff[i] != 0) any = true; }
  if (!any) s.coeff[ch.draw(0, s.coeff.size() - 1)] = -2.25f;
  size_t nd = s.ndim();
  // grids: 1..12 abscissae per dimension, unsorted, repeated, outside, on knots
  std::vector<std::vector<double>> grid(nd);
  bool has_outside = false, has_repeat_or_unsorted = false, single_axis = false;
  for (size_t d = 0; d < nd; d++) {
    int n = ch.coin(1, 6) ? 1 : 1 + (int)ch.draw(0, nd >= 3 ? 5 : 11);
    if (n == 1) single_axis = true;
    const auto& k = s.dims[d].knots;
    for (int i = 0; i < n; i++) {
      double x;
      switch (ch.draw(0, 5)) {
        case 0: x = k.front() - 0.5 - (double)ch.draw(0, 3); has_outside = true; break;
        case 1: x = k.back() + 0.25 + (double)ch.draw(0, 3); has_outside = true; break;
        case 2: x = k[ch.draw(0, k.size() - 1)]; break;
        case 3: if (!grid[d].empty()) { x = grid[d][ch.draw(0, grid[d].size() - 1)]; has_repeat_or_unsorted = true; break; }  // fallthrough
        default: x = gen_coord_inside(ch, s.dims[d]);
      }
      grid[d].push_back(x);
    }
    if (!std::is_sorted(grid[d].begin(), grid[d].end())) has_repeat_or_unsorted = true;
  }
  std::ostringstream js;
  js << "{\"spec\":" << s.json(6) << ",\"grid\":[";
  for (size_t d = 0; d < nd; d++) js << (d ? "," : "") << jarr(grid[d]);
  js << "]}";
  r.json = js.str();
  bool via_c = ch.coin(1, 3);
  if (st) {
    st->label("ndim:" + std::to_string(nd)); if (has_outside) st->label("grid:has_outside_points"); if (has_repeat_or_unsorted) st->label("grid:unsorted_or_repeated"); if (single_axis) st->label("grid:single_point_axis"); st->label(via_c ? "via:C" : "via:C++");
    if (nd >= 2 && has_outside && has_repeat_or_unsorted) { Hasher h; h.add(s.hash()); for (auto& g : grid) for (double v : g) h.addd(v); st->nontriv(h.h); }
    st->sample(r.json);
  }
  Table t;
  try { build_p1(t, s); } catch (std::exception& e) { r.fail = std::string("harness: ") + e.what(); return r; }
  // run
  std::unique_ptr<photospline::ndsparse> own;
  ::ndsparse* res = nullptr;
  if (via_c) {
    struct splinetable ct; ct.data = &t;
    std::vector<const double*> cp; std::vector<uint32_t> nc;
    for (auto& g : grid) { cp.push_back(g.data()); nc.push_back((uint32_t)g.size()); }
    if (splinetable_grideval(&ct, cp.data(), nc.data(), &res) != 0 || !res) { r.fail = "C grid evaluation failed on valid arguments"; return r; }
  } else {
    try { own = t.grideval(grid); } catch (std::exception& e) { r.fail = std::string("grideval threw on valid arguments: ") + e.what(); return r; }
    res = own.get();
  }
  std::string fail;
  do {
    if (res->ndim != nd) { fail = "result has " + std::to_string(res->ndim) + " dimensions"; break; }
    std::vector<uint64_t> gstride(nd); uint64_t tot = 1;
    for (size_t d = nd; d-- > 0;) { gstride[d] = tot; tot *= grid[d].size(); }
    for (size_t d = 0; d < nd; d++) if (res->ranges[d] != grid[d].size()) { fail = "index range of dimension " + std::to_string(d) + " is " + std::to_string(res->ranges[d]) + ", grid length " + std::to_string(grid[d].size()); break; }
    if (!fail.empty()) break;
    std::vector<LD> val(tot, 0); std::vector<char> listed(tot, 0);
    for (size_t e = 0; e < res->rows && fail.empty(); e++) {
      uint64_t pos = 0;
      for (size_t d = 0; d < nd; d++) { if (res->i[d][e] >= grid[d].size()) { fail = "listed entry has an index outside the grid"; break; } pos += res->i[d][e] * gstride[d]; }
      if (!fail.empty()) break;
      val[pos] += res->x[e]; listed[pos] = 1;
    }
    if (!fail.empty()) break;
    auto rd = s.refdims();
    std::vector<size_t> I(nd, 0);
    for (uint64_t pos = 0; pos < tot; pos++) {
      uint64_t rr = pos; std::vector<double> x(nd); bool inside = true;
      for (size_t d = 0; d < nd; d++) { I[d] = rr / gstride[d]; rr %= gstride[d]; x[d] = grid[d][I[d]]; if (!(x[d] > s.dims[d].knots.front() && x[d] < s.dims[d].knots.back())) inside = false; }
      if (!inside) continue;
      std::vector<int> c(nd);
      if (!t.searchcenters(x.data(), c.data())) { fail = "lookup failed strictly inside the knot range"; break; }
      double pv = t.ndsplineeval<double>(x.data(), c.data(), 0);
      VM ref; ref_eval(rd, s.coeff, x.data(), nullptr, ref);
      double tol = 1e5 * DBL_EPSILON * (double)ref.m + 1e-300;
      if (st) st->label(listed[pos] ? "interior_point:listed" : "interior_point:unlisted");
      if (!(fabs((double)val[pos] - pv) <= tol)) { fail = "grid value " + jnum((double)val[pos]) + (listed[pos] ? "" : " (not listed)") + " differs from pointwise evaluation " + jnum(pv) + " at " + jarr(x); break; }
    }
  } while (false);
  if (via_c) ndsparse_destroy(res);
  r.fail = fail;
  return r;
}

}  // namespace

int main(int argc, char** argv) {
  Options o = parse_options(argc, argv);
  Prop a{"grideval", body, 1.0}; a.leakcheck = true;
  return run_main(o, "C17", {a});
}
