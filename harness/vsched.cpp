// vsched.cpp — a schedule-owning shim for the pthread calls of src/fitter/cholesky_solve.c.
// That file is compiled with -Dpthread_create=vs_create ... (no source change); the functions
// below run its threads as real pthreads gated by a baton so that exactly one runs at a time,
// model mutexes and condition variables themselves, and make every call a scheduling point at
// which the next runnable thread is chosen from a choice list (prefix) or by a policy.
// A state with unfinished threads and none runnable is a deadlock / lost wake-up.
#include "vsched.h"
#include <errno.h>
#include <pthread.h>
#include <sched.h>
#include <stdio.h>
#include <stdlib.h>
#include <string.h>
#include <unistd.h>
#include <map>
#include <vector>

namespace vs {
Control ctl;
Control& control() { return ctl; }
}  // namespace vs
using vs::ctl;

namespace {
enum St { RUNNABLE, BLK_MUTEX, BLK_COND, BLK_JOIN, FINISHED };
struct VT { pthread_t real; int id; St st; void* obj; void* cmutex; int join_target; void* (*fn)(void*); void* arg; };
std::vector<VT*> T;
std::map<void*, int> owner;  // modelled mutex -> owning thread id (-1 free)
int current = 0;
pthread_mutex_t big = PTHREAD_MUTEX_INITIALIZER;
pthread_cond_t turn = PTHREAD_COND_INITIALIZER;
__thread int my_id = 0;
bool inited = false;
uint64_t rng_state = 1;
uint64_t rng() { rng_state ^= rng_state << 13; rng_state ^= rng_state >> 7; rng_state ^= rng_state << 17; return rng_state; }
std::vector<int> prio;  // PCT priorities per thread id
bool main_window = false;  // coordinator is between an unlock and its next lock/cond_wait

void init() {
  if (inited) return;
  inited = true;
  VT* m = new VT(); m->real = pthread_self(); m->id = 0; m->st = RUNNABLE; T.push_back(m);
  my_id = 0; current = 0;
  rng_state = ctl.seed * 0x9e3779b97f4a7c15ULL + 12345;
  if (!rng_state) rng_state = 1;
}

void finish_run(const char* outcome) {
  // report trace + outcome to the parent and leave
  if (ctl.report_fd >= 0) {
    std::string msg = std::string("O ") + outcome + "\n";
    msg += "W " + std::to_string(ctl.window_hits) + " " + std::to_string(ctl.switches) + "\n";
    msg += "T";
    for (auto& p : ctl.trace) msg += " " + std::to_string(p.first) + "/" + std::to_string(p.second);
    msg += "\n";
    size_t off = 0;
    while (off < msg.size()) { ssize_t w = write(ctl.report_fd, msg.data() + off, msg.size() - off); if (w <= 0) break; off += (size_t)w; }
  }
  _exit(strcmp(outcome, "DEADLOCK") == 0 ? 42 : 43);
}

bool can_run(VT* t) {
  if (t->st == RUNNABLE) return true;
  if (t->st == BLK_MUTEX) { auto it = owner.find(t->obj); return it == owner.end() || it->second < 0; }
  if (t->st == BLK_JOIN) return T[t->join_target]->st == FINISHED;
  return false;
}

int choose(const std::vector<int>& run, int me_runnable = -1) {
  if (run.size() == 1) return run[0];
  // preemption bounding: once the budget is used up a thread that can continue does continue
  if (ctl.preempt_bound >= 0 && me_runnable >= 0 && ctl.preemptions >= ctl.preempt_bound) return me_runnable;
  int c;
  size_t idx = ctl.trace.size();
  if (idx < ctl.prefix.size()) { c = ctl.prefix[idx]; if (c < 0 || c >= (int)run.size()) c = 0; }
  else if (ctl.policy == 1) c = (int)(rng() % run.size());
  else if (ctl.policy == 2) {  // PCT: highest priority runs; priorities change at a few random steps
    while (prio.size() < T.size()) prio.push_back((int)(rng() % 1000) + 10);
    if (ctl.pct_changes > 0 && rng() % 23 == 0) { prio[run[rng() % run.size()]] = (int)(rng() % 10); ctl.pct_changes--; }
    c = 0; for (size_t i = 1; i < run.size(); i++) if (prio[run[i]] > prio[run[c]]) c = (int)i;
  } else c = 0;
  ctl.trace.push_back({c, (int)run.size()});
  if ((long)ctl.trace.size() > ctl.max_steps) finish_run("STEPBUDGET");
  if (me_runnable >= 0 && run[c] != me_runnable) ctl.preemptions++;
  return run[c];
}

// caller holds `big`; returns when the calling thread has been chosen and its blocking condition resolved
void schedule(VT* me) {
  std::vector<int> run;
  for (VT* t : T) if (can_run(t)) run.push_back(t->id);
  if (run.empty()) finish_run("DEADLOCK");
  int next = choose(run, can_run(me) ? me->id : -1);
  if (next != me->id) {
    ctl.switches++;
    current = next;
    pthread_cond_broadcast(&turn);
    while (current != me->id) pthread_cond_wait(&turn, &big);  // resumed only when some scheduler chose me, i.e. when I can run
  }
  if (me->st == BLK_MUTEX) { owner[me->obj] = me->id; me->st = RUNNABLE; }
  else if (me->st == BLK_JOIN) me->st = RUNNABLE;
}

void thread_done(VT* me) {
  pthread_mutex_lock(&big);
  me->st = FINISHED;
  std::vector<int> run;
  for (VT* t : T) if (can_run(t)) run.push_back(t->id);
  bool all = true;
  for (VT* t : T) if (t->st != FINISHED) all = false;
  if (run.empty() && !all) finish_run("DEADLOCK");
  if (!run.empty()) { current = choose(run); pthread_cond_broadcast(&turn); }
  pthread_mutex_unlock(&big);
}

void* trampoline(void* p) {
  VT* me = (VT*)p;
  my_id = me->id;
  pthread_mutex_lock(&big);
  while (current != me->id) pthread_cond_wait(&turn, &big);
  pthread_mutex_unlock(&big);
  me->fn(me->arg);
  thread_done(me);
  return nullptr;
}
}  // namespace

extern "C" {

int vs_create(pthread_t* t, const pthread_attr_t* attr, void* (*fn)(void*), void* arg) {
  init();
  pthread_mutex_lock(&big);
  VT* v = new VT(); v->id = (int)T.size(); v->st = RUNNABLE; v->fn = fn; v->arg = arg; T.push_back(v);
  pthread_create(&v->real, nullptr, trampoline, v);
  *t = v->real;
  (void)attr;
  schedule(T[my_id]);
  pthread_mutex_unlock(&big);
  return 0;
}

int vs_join(pthread_t t, void** ret) {
  init();
  pthread_mutex_lock(&big);
  VT* me = T[my_id];
  int target = -1;
  for (VT* v : T) if (v->id != 0 && pthread_equal(v->real, t)) target = v->id;
  if (target >= 0) { me->st = BLK_JOIN; me->join_target = target; schedule(me); }
  pthread_mutex_unlock(&big);
  if (target >= 0) pthread_join(t, nullptr);
  if (ret) *ret = nullptr;
  return 0;
}

int vs_lock(pthread_mutex_t* m) {
  init();
  pthread_mutex_lock(&big);
  VT* me = T[my_id];
  if (me->id == 0) main_window = false;
  me->st = BLK_MUTEX; me->obj = m;
  schedule(me);
  pthread_mutex_unlock(&big);
  return 0;
}

int vs_unlock(pthread_mutex_t* m) {
  init();
  pthread_mutex_lock(&big);
  VT* me = T[my_id];
  owner[m] = -1;
  if (me->id == 0) main_window = true;
  schedule(me);
  pthread_mutex_unlock(&big);
  return 0;
}

int vs_cond_wait(pthread_cond_t* cv, pthread_mutex_t* m) {
  init();
  pthread_mutex_lock(&big);
  VT* me = T[my_id];
  if (me->id == 0) main_window = false;
  owner[m] = -1;
  me->st = BLK_COND; me->obj = cv; me->cmutex = m;
  schedule(me);
  pthread_mutex_unlock(&big);
  return 0;
}

int vs_broadcast(pthread_cond_t* cv) {
  init();
  pthread_mutex_lock(&big);
  VT* me = T[my_id];
  if (me->id != 0 && main_window) ctl.window_hits++;
  for (VT* v : T) if (v->st == BLK_COND && v->obj == cv) { v->st = BLK_MUTEX; v->obj = v->cmutex; }
  schedule(me);
  pthread_mutex_unlock(&big);
  return 0;
}

void vs_exit(void* ret) {
  (void)ret;
  thread_done(T[my_id]);
  pthread_exit(nullptr);
}

int vs_setaffinity(pid_t pid, size_t sz, const cpu_set_t* set) {
  (void)pid;
  // pinning to a CPU the process may not use fails, as it does with more workers than CPUs or in a restricted cpuset
  if (ctl.cpu_limit >= 0 && set) for (int cpu = 0; cpu < (int)(sz * 8) && cpu < CPU_SETSIZE; cpu++) if (CPU_ISSET_S(cpu, sz, set)) { if (cpu >= ctl.cpu_limit) { errno = EINVAL; return -1; } break; }
  return 0;
}

}  // extern "C"

namespace vs {
void reset_for_child() {
  // called in the forked child before the code under test runs
  T.clear(); owner.clear(); inited = false; current = 0; my_id = 0; prio.clear(); main_window = false;
  ctl.trace.clear(); ctl.window_hits = 0; ctl.switches = 0; ctl.preemptions = 0;
  init();
}
}  // namespace vs
