// C07 — reading any bytes either fails cleanly or yields a safe, well-formed table.
// Structure-aware mutation of spline FITS files (fitsmut.hpp); oracle inside the body:
//   failure  -> object empty, reusable (a good buffer loads into the SAME object and equals the
//               reference), safely destructible;
//   success  -> well-formedness predicate, then a battery of lookup / evaluation / comparison /
//               re-serialisation / permutation, all under ASan+UBSan.
// The same body is the libFuzzer target when built with -DVF_FUZZ (see vf_fuzz.hpp).
#include "common/vf_rc.hpp"
#include "common/libtable.hpp"
#include "common/fitsmut.hpp"
#include "common/bigalloc_guard.hpp"
#include <photospline/cinter/splinetable.h>
#include <numeric>
#include <sys/stat.h>
#ifdef VF_FUZZ
#include "common/vf_fuzz.hpp"
#endif

using namespace vf;

namespace {

const std::vector<unsigned char>& good_buffer() {
  static std::vector<unsigned char> b;
  if (b.empty()) {
    TableSpec s; DimSpec d; d.order = 2; d.knots = {0, 1, 2, 3, 4, 5, 6, 7}; d.ext_lo = 2; d.ext_hi = 5; s.dims.push_back(d);
    DimSpec e; e.order = 1; e.knots = {0, 0.5, 2, 3}; e.ext_lo = 0.5; e.ext_hi = 2; s.dims.push_back(e);
    s.coeff.resize(s.ncoeff()); for (size_t i = 0; i < s.coeff.size(); i++) s.coeff[i] = 1.0f + (float)i;
    s.aux.push_back({"GOOD", "yes"});
    b = spec_to_fits(s);
  }
  return b;
}

std::string wellformed(const Table& t) {
  uint32_t nd = t.get_ndim();
  if (nd == 0) return "read reported success but the table is empty";
  uint64_t prod = 1, acc = 1;
  for (uint32_t d = nd; d-- > 0;) {
    uint64_t nk = t.get_nknots(d), o = t.get_order(d), nc = t.get_ncoeffs(d);
    std::string D = " in dimension " + std::to_string(d);
    if (nc + o + 1 != nk) return "coefficient count " + std::to_string(nc) + " != knots " + std::to_string(nk) + " - order " + std::to_string(o) + " - 1" + D;
    if (nc < o + 1) return "fewer than order+1 coefficients" + D;
    for (uint64_t i = 0; i < nk; i++) {
      double k = t.get_knot(d, i);
      if (!std::isfinite(k)) return "non-finite knot" + D;
      if (i && k < t.get_knot(d, i - 1)) return "decreasing knots" + D;
    }
    if (t.get_stride(d) != acc) return "stride is not the C-order stride" + D;
    acc *= nc; prod *= nc;
  }
  if (t.get_ncoeffs() != prod) return "total coefficient count is not the product of the axis lengths";
  return "";
}

// battery of operations on a loaded table; memory safety is judged by the sanitizers
std::string battery(Chooser& ch, Table& t, Stats* st) {
  uint32_t nd = t.get_ndim();
  TableSpec s;
  for (uint32_t d = 0; d < nd; d++) { DimSpec ds; ds.order = t.get_order(d); ds.knots.assign(t.get_knots(d), t.get_knots(d) + t.get_nknots(d)); s.dims.push_back(ds); }
  volatile double sink = 0;
  bool any_range = true;
  for (auto& d : s.dims) if (!(d.knots.front() < d.knots.back())) any_range = false;
  if (nd <= 24 && any_range) {
    auto evf = t.get_evaluator<float>(); auto evd = t.get_evaluator<double>();
    struct splinetable ct; ct.data = &t;
    for (int p = 0; p < 4; p++) {
      std::vector<double> x(nd); std::vector<int> c(nd, 0);
      for (uint32_t d = 0; d < nd; d++) x[d] = gen_coord_inside(ch, s.dims[d]);
      if (!t.searchcenters(x.data(), c.data())) continue;
      int mask = (int)ch.draw(0, (1u << std::min<uint32_t>(nd, 20)) - 1);
      sink = sink + t.ndsplineeval<float>(x.data(), c.data(), mask) + t.ndsplineeval<double>(x.data(), c.data(), 0) + t(x.data());
      sink = sink + evf.ndsplineeval(x.data(), c.data(), mask) + evd(x.data(), mask) + ::ndsplineeval(&ct, x.data(), c.data(), 0);
      std::vector<unsigned> dv(nd); for (auto& v : dv) v = (unsigned)ch.draw(0, 3);
      sink = sink + t.ndsplineeval_deriv(x.data(), c.data(), dv.data()) + evf.ndsplineeval_deriv(x.data(), c.data(), dv.data());
      std::vector<double> g(nd + 1);
      bool threw = false;
      try { t.ndsplineeval_gradient<float>(x.data(), c.data(), g.data()); evd.ndsplineeval_gradient(x.data(), c.data(), g.data()); } catch (std::runtime_error&) { threw = true; }
      if (threw != (nd >= 8)) return "gradient refusal does not match the dimension limit";
      if (st) st->label("battery:evaluated");
    }
    // outside points must be refused
    std::vector<double> x(nd); std::vector<int> c(nd);
    for (uint32_t d = 0; d < nd; d++) x[d] = s.dims[d].knots.front();
    if (t.searchcenters(x.data(), c.data())) return "lookup accepted the first knot";
  }
  if (!(t == t) || (t != t)) { bool nan = false; for (uint64_t i = 0; i < t.get_ncoeffs(); i++) if (std::isnan(t.get_coefficients()[i])) nan = true; if (!nan) return "table does not compare equal to itself"; }
  // re-serialise and re-read
  if (getenv("VF_VERBOSE")) for (size_t i = 0; i < t.get_naux_values(); i++) fprintf(stderr, "AUX #%zu key=[%s] value=[%s]\n", i, jesc(t.get_aux_key(i)).c_str(), jesc(t.get_aux_value(t.get_aux_key(i))).c_str());
  // The property asks that re-serialisation of whatever was loaded be memory-safe and terminate; a writer that
  // refuses (e.g. header cards swallowed as over-long aux keys after a lost END card) has done both.
  std::pair<void*, size_t> buf;
  try { buf = t.write_fits_mem(); } catch (std::exception&) { if (st) st->label("battery:reserialisation_refused"); return ""; }
  Table u;
  try { u.read_fits_mem(buf.first, buf.second); } catch (std::exception& e) { free(buf.first); return std::string("table that was read successfully cannot be re-read after writing: ") + e.what(); }
  free(buf.first);
  bool nan = false; for (uint64_t i = 0; i < t.get_ncoeffs(); i++) if (std::isnan(t.get_coefficients()[i])) nan = true;
  if (!nan && !(t == u)) return "re-serialised table differs from the loaded one";
  if (nd <= 12) { std::vector<size_t> id(nd); std::iota(id.begin(), id.end(), 0); if (nd >= 2 && ch.coin(1, 2)) std::reverse(id.begin(), id.end()); u.permuteDimensions(id); }
  for (size_t i = 0; i < t.get_naux_values(); i++) { const char* k = t.get_aux_key(i); if (!t.get_aux_value(k)) return "aux key listed but not found"; }
  (void)sink;
  return "";
}

bool early_rejection(const std::string& what) {
  static const char* early[] = {"CFITSIO failed to open", "Unable to move to first HDU", "is not an image", "Unable to read table dimension", "Invalid table dimension"};
  for (auto e : early) if (what.find(e) != std::string::npos) return true;
  return false;
}

std::string tmp_path() { static int n = 0; mkdir("/verif/build/tmp", 0777); return "/verif/build/tmp/c07-" + std::to_string(getpid()) + "-" + std::to_string(n++) + ".fits"; }

}  // namespace

namespace vf {
CaseResult c07_body_bytes(Chooser& ch, Stats* st, std::vector<unsigned char> bytes, const std::string& descr, int nmut, uint64_t muthash) {
  CaseResult r;
  QuietStderr q;
  r.json = "{\"size\":" + std::to_string(bytes.size()) + ",\"mutations\":" + descr + "}";
  int via = (int)ch.draw(0, 15);  // 0: disk, 1: C interface, else memory
  std::unique_ptr<Table> t(new Table());
  bool ok = false; std::string what;
  struct splinetable ct; ct.data = nullptr;
  try {
    if (via == 0) {
      std::string p = tmp_path();
      FILE* f = fopen(p.c_str(), "wb"); if (f) { fwrite(bytes.data(), 1, bytes.size(), f); fclose(f); }
      try { t->read_fits(p); } catch (...) { unlink(p.c_str()); throw; }
      unlink(p.c_str()); ok = true;
    } else if (via == 1) {
      splinetable_init(&ct);
      struct splinetable_buffer sb; sb.data = bytes.data(); sb.size = bytes.size();
      int rc = readsplinefitstable_mem(&sb, &ct);
      ok = rc == 0;
      if (!ok) what = "C interface returned non-zero";
    } else { t->read_fits_mem(bytes.data(), bytes.size()); ok = true; }
  } catch (std::exception& e) { what = e.what(); }
  catch (...) { r.fail = "reader threw something that is not a std::exception"; return r; }
  Table* live = via == 1 ? static_cast<Table*>(ct.data) : t.get();
  bool reached = ok || (via != 1 && !early_rejection(what)) || (via == 1);
  if (st) {
    st->label(ok ? "read:success" : "read:failure"); st->label(via == 0 ? "via:disk" : via == 1 ? "via:C" : "via:memory");
    if (reached && nmut > 0) { st->label("reached_spline_parsing"); st->nontriv(muthash); }
    if (!ok && !reached) st->label("rejected_by_cfitsio_at_open");
    st->sample(r.json);
  }
  if (!ok) {
    // failure path: empty, reusable, destructible
    if (live->get_ndim() != 0) { r.fail = "failed read left a non-empty object (ndim=" + std::to_string(live->get_ndim()) + "): " + what; }
    else {
      std::vector<unsigned char> g = good_buffer();
      try { live->read_fits_mem(g.data(), g.size()); } catch (std::exception& e) { r.fail = std::string("object is not reusable after a failed read: ") + e.what(); }
      if (r.fail.empty()) {
        Table ref; std::vector<unsigned char> g2 = good_buffer(); ref.read_fits_mem(g2.data(), g2.size());
        if (!(*live == ref) || live->get_naux_values() != 1) r.fail = "a good buffer read after a failed read does not yield the reference table";
      }
    }
  } else {
    std::string e = wellformed(*live);
    if (!e.empty()) r.fail = "reader accepted a malformed table: " + e;
    else {
      if (st) st->label("ndim_loaded:" + std::to_string(std::min<uint32_t>(live->get_ndim(), 10)));
      try { e = battery(ch, *live, st); } catch (std::exception& ex) { e = std::string("operation on a loaded table threw: ") + ex.what(); }
      if (!e.empty()) r.fail = e;
    }
  }
  if (via == 1) splinetable_free(&ct);
  return r;
}

CaseResult c07_body(Chooser& ch, Stats* st) {
  MutLog log; int nmut = 0;
  std::vector<unsigned char> bytes = gen_mutated_file(ch, log, nullptr, &nmut);
  Hasher h; for (auto& s : log.steps) h.adds(s);
  if (st) { st->label("mutations", (uint64_t)nmut); for (auto& s : log.steps) { size_t sp = s.find(' '); st->label("mut:" + s.substr(0, sp == std::string::npos ? s.size() : sp)); } }
  return c07_body_bytes(ch, st, bytes, log.json(), nmut, h.h);
}
}  // namespace vf

#ifndef VF_FUZZ
int main(int argc, char** argv) {
  Options o = parse_options(argc, argv);
  Prop a{"reader", vf::c07_body, 1.0, 1 /* isolate */, 2048, 60};
  return run_main(o, "C07", {a});
}
#else
VF_FUZZ_TARGET("C07", "reader_fuzz", vf::c07_body, vf::c07_body_bytes)
#endif
