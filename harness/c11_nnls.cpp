// C11 — the non-negative least-squares solvers return the constrained optimum.
// Oracles: (a) enumeration of all 2^n active sets in long double (n <= 10, random data);
// (b) construction: b := A x0 + g0 with x0 >= 0, g0 >= 0, x0.g0 = 0 makes x0 the unique minimiser
//     (any n, including exactly-zero and tied components);
// (c) the KKT conditions evaluated on the returned vector with the solver's stated tolerance.
// Every solve runs in a forked child (exit(1) "Math has failed", hangs and aborts are failures).
#include <cfloat>
#include "common/vf_rc.hpp"
#include "common/fitgen.hpp"
extern "C" {
#include <cholmod.h>
#include <photospline/detail/splineutil.h>
}

using namespace vf;

// guarded hook in /repo/src/fitter/nnls.c (-DPHOTOSPLINE_VERIF): a block solver left its loop at the iteration limit
extern "C" int photospline_verif_nnls_cap_hit;
extern "C" long photospline_verif_multirow_updates;

namespace {

struct Sys { int n; std::vector<double> A, b; std::vector<double> M; int mrows = 0; std::vector<double> yls; std::string cls; bool constructed = false; std::vector<double> x0; std::string cls_extra; };

cholmod_sparse* to_sparse(const std::vector<double>& A, int nr, int nc, cholmod_common* c) {
  size_t nz = 0; for (double v : A) if (v != 0) nz++;
  cholmod_triplet* t = cholmod_l_allocate_triplet(nr, nc, nz ? nz : 1, 0, CHOLMOD_REAL, c);
  size_t k = 0;
  for (int i = 0; i < nr; i++) for (int j = 0; j < nc; j++) if (A[(size_t)i * nc + j] != 0) { ((long*)t->i)[k] = i; ((long*)t->j)[k] = j; ((double*)t->x)[k] = A[(size_t)i * nc + j]; k++; }
  t->nnz = k;
  cholmod_sparse* s = cholmod_l_triplet_to_sparse(t, k, c);
  cholmod_l_free_triplet(&t, c);
  return s;
}

// mode 0: small (enumerable), 1: large sparse banded, 2: medium dense (where modify_factor chooses row updates of
// several rows at once over a refactorization: fl / (9 * threads * rows * modfl) > 1 needs n of a few dozen, dense)
Sys gen_system(Chooser& ch, int mode) {
  Sys s;
  bool small = mode == 0;
  int kind = (int)ch.draw(0, 3);  // 0 dense random, 1 sparse banded, 2 badly scaled, 3 degenerate/tied (constructed)
  // small systems with real-valued (roughly normal) entries instead of small half-integers: the pivoting solvers
  // take longer, less regular paths on them
  bool gaussian = small && gen_version() >= 2 && kind == 0 && ch.coin(1, 2);
  s.n = small ? 1 + (int)ch.draw(0, 9) : (mode == 1 ? 20 + (int)ch.draw(0, 180) : 40 + (int)ch.draw(0, 260));
  int n = s.n;
  s.mrows = n + (int)ch.draw(0, mode == 2 ? n / 2 : 4);
  s.M.assign((size_t)s.mrows * n, 0.0);
  bool banded = mode == 1 || (small && kind == 1);
  if (mode == 2) {  // entries from a drawn salt (a draw per entry would not fit the word budget of an isolated case)
    uint64_t salt = ch.draw(0, 0xffffff);
    for (int i = 0; i < s.mrows; i++) for (int j = 0; j < n; j++) { uint64_t h = mix64(salt ^ mix64((uint64_t)i * 1000 + j)); if (h % 4 == 0) continue; s.M[(size_t)i * n + j] = (double)((int)((h >> 8) % 9) - 4) / 2.0; }
  } else
  for (int i = 0; i < s.mrows; i++) for (int j = 0; j < n; j++) {
    if (banded && std::abs(i - j) > 2) continue;
    if (gaussian) { s.M[(size_t)i * n + j] = ((double)ch.draw(0, 4095) + (double)ch.draw(0, 4095) + (double)ch.draw(0, 4095) - 6142.5) / 1182.0; continue; }
    if (!banded && ch.coin(1, 4)) continue;
    s.M[(size_t)i * n + j] = (double)ch.range(-4, 4) / 2.0;
  }
  static const double deltas[] = {1e-6, 1e-3, 0.05, 1.0};
  double delta = deltas[ch.draw(small ? 0 : 1, 3)];
  // column scaling for the badly scaled class
  std::vector<double> sc(n, 1.0);
  if (kind == 2) for (auto& v : sc) v = ldexp(1.0, ch.range(-6, 6));
  // extend M by sqrt(delta)*I rows so that A = M'M exactly represents the least-squares form too
  int mr = s.mrows + n;
  std::vector<double> Mx((size_t)mr * n, 0.0);
  for (int i = 0; i < s.mrows; i++) for (int j = 0; j < n; j++) Mx[(size_t)i * n + j] = s.M[(size_t)i * n + j] * sc[j];
  for (int j = 0; j < n; j++) Mx[(size_t)(s.mrows + j) * n + j] = sqrt(delta) * sc[j];
  s.M = Mx; s.mrows = mr;
  s.A.assign((size_t)n * n, 0.0);
  if (mode == 2) {  // row-wise outer products (entries are multiples of 1/4 and of sqrt(delta)^2: the double sums are exact enough; only the normal-equation solvers see these systems)
    for (int k = 0; k < mr; k++) { std::vector<int> nzc; for (int j = 0; j < n; j++) if (s.M[(size_t)k * n + j] != 0) nzc.push_back(j); for (int a : nzc) for (int b2 : nzc) s.A[(size_t)a * n + b2] += s.M[(size_t)k * n + a] * s.M[(size_t)k * n + b2]; }
  } else
  for (int i = 0; i < n; i++) for (int j = 0; j < n; j++) { LD a = 0; for (int k = 0; k < mr; k++) a += (LD)s.M[(size_t)k * n + i] * s.M[(size_t)k * n + j]; s.A[(size_t)i * n + j] = (double)a; }
  s.b.resize(n);
  if (kind == 3 || !small) {
    // constructed optimum with exactly-zero and tied components
    s.constructed = true; s.x0.assign(n, 0.0);
    std::vector<double> g0(n, 0.0);
    if (mode != 2) {
      for (int i = 0; i < n; i++) { int r = (int)ch.draw(0, 3); if (r == 0) s.x0[i] = (double)(1 + ch.draw(0, 7)) / 4.0; else if (r == 1) g0[i] = (double)(1 + ch.draw(0, 7)) / 8.0; /* r >= 2: x0 = g0 = 0, degenerate */ }
    } else {
      // share of positive components 1/4, 1/2 or 7/8: a large free set is what makes modify_factor prefer row
      // updates of several rows over a refactorization
      static const int pos8s[] = {2, 4, 7};
      int pos8 = pos8s[ch.draw(0, 2)];
      for (int i = 0; i < n; i++) { int r = (int)ch.draw(0, 7); if (r < pos8) s.x0[i] = (double)(1 + ch.draw(0, 7)) / 4.0; else if ((r - pos8) % 2 == 0) g0[i] = (double)(1 + ch.draw(0, 7)) / 8.0; /* else: x0 = g0 = 0, degenerate */ }
      s.cls_extra = "positive_share:" + std::to_string(pos8) + "/8";
    }
    for (int i = 0; i < n; i++) { LD a = 0; for (int j = 0; j < n; j++) a += (LD)s.A[(size_t)i * n + j] * s.x0[j]; s.b[i] = (double)(a - (LD)g0[i]); }   // gradient A x0 - b = g0
    s.cls = small ? "degenerate_constructed" : (mode == 1 ? "large_sparse_constructed" : "medium_dense_constructed");
  } else {
    for (auto& v : s.b) v = gaussian ? ((double)ch.draw(0, 4095) + (double)ch.draw(0, 4095) - 4095.0) / 512.0 : (double)ch.range(-8, 8) / 2.0;
    if (kind == 2) for (int i = 0; i < n; i++) s.b[i] *= sc[i];
    s.cls = kind == 0 ? (gaussian ? "random_real_valued" : "random") : kind == 1 ? "banded" : "badly_scaled";
  }
  // least-squares right-hand side y with M'y = b (minimum-norm y through the identity rows)
  s.yls.assign(mr, 0.0);
  for (int j = 0; j < n; j++) s.yls[s.mrows - n + j] = s.b[j] / (sqrt(delta) * sc[j]);
  return s;
}

// enumerated optimum (n <= 10): the feasible stationary point of minimal objective
bool enumerate_optimum(const Sys& s, std::vector<LD>& xstar) {
  int n = s.n; bool found = false; LD best = 0;
  for (unsigned S = 0; S < (1u << n); S++) {
    std::vector<int> ix; for (int i = 0; i < n; i++) if (S >> i & 1) ix.push_back(i);
    size_t m = ix.size();
    std::vector<LD> As(m * m), bs(m), L, xs;
    for (size_t a = 0; a < m; a++) { bs[a] = s.b[ix[a]]; for (size_t c = 0; c < m; c++) As[a * m + c] = s.A[(size_t)ix[a] * n + ix[c]]; }
    if (m) { if (!cholesky_ld(As, m, L)) continue; xs = chol_solve(L, m, bs); }
    bool feas = true; for (LD v : xs) if (v < 0) feas = false;
    if (!feas) continue;
    LD f = 0;  // 1/2 x'Ax - b'x = -1/2 b_S' x_S at a stationary point of the sub-problem
    for (size_t a = 0; a < m; a++) f -= 0.5L * bs[a] * xs[a];
    if (!found || f < best) { found = true; best = f; xstar.assign(n, 0); for (size_t a = 0; a < m; a++) xstar[ix[a]] = xs[a]; }
  }
  return found;
}

struct SolverSpec { const char* name; double tol_x; double tol_g_abs; };

std::vector<double> run_solver(int which, const Sys& s, cholmod_common* c) {
  int n = s.n;
  cholmod_sparse* A = to_sparse(s.A, n, n, c);
  cholmod_dense* b = cholmod_l_allocate_dense(n, 1, n, CHOLMOD_REAL, c);
  for (int i = 0; i < n; i++) ((double*)b->x)[i] = s.b[i];
  cholmod_dense* x = nullptr;
  switch (which) {
    case 0: x = nnls_normal_block3(A, b, getenv("VF_DEBUG_C11") ? 1 : 0, c); break;
    case 1: x = nnls_normal_block(A, b, 0, c); break;
    case 2: x = nnls_normal_block_updown(A, b, 0, c); break;
    case 3: x = nnls_lawson_hanson(A, b, 0.0, 0, 20 * n + 50, 0, 1, 0, c); break;
    default: {
      cholmod_sparse* M = to_sparse(s.M, s.mrows, n, c);
      cholmod_dense* y = cholmod_l_allocate_dense(s.mrows, 1, s.mrows, CHOLMOD_REAL, c);
      for (int i = 0; i < s.mrows; i++) ((double*)y->x)[i] = s.yls[i];
      x = nnls_lawson_hanson(M, y, 0.0, 0, 20 * n + 50, 0, 0, 0, c);
      cholmod_l_free_sparse(&M, c); cholmod_l_free_dense(&y, c);
    }
  }
  std::vector<double> out;
  if (x) { out.assign((double*)x->x, (double*)x->x + n); cholmod_l_free_dense(&x, c); }
  cholmod_l_free_sparse(&A, c); cholmod_l_free_dense(&b, c);
  return out;
}

static bool g_skip_enumeration = false;
static const char* kSolverNames[] = {"block3", "block", "block_updown", "lawson_hanson_normal", "lawson_hanson_lsq"};

CaseResult body(Chooser& ch, Stats* st, int mode) {
  CaseResult r;
  bool small = mode == 0;
  Sys s = gen_system(ch, mode);
  int nthreads = mode == 2 ? 1 + (int)ch.draw(0, 1) : 2;
  int which = (int)ch.draw(0, small ? 4 : 2);  // the SPQR-based Lawson-Hanson is only run on small systems
  int n = s.n;
  std::ostringstream js;
  js << "{\"solver\":" << jstr(kSolverNames[which]) << ",\"n\":" << n << ",\"class\":" << jstr(s.cls) << ",\"threads\":" << nthreads;
  if (n <= 6) { js << ",\"A\":" << jarr(s.A) << ",\"b\":" << jarr(s.b); }
  js << "}";
  r.json = js.str();
  // reference optimum
  std::vector<LD> xstar;
  if (s.constructed) xstar.assign(s.x0.begin(), s.x0.end());
  else if (g_skip_enumeration) xstar.clear();   // fuzz twin: the KKT conditions alone decide (they characterise the optimum)
  else if (!enumerate_optimum(s, xstar)) { r.discard = true; return r; }
  // the tolerance is tied to the conditioning; systems beyond cond 1e8 are outside the domain (counted)
  LD cond = 1;
  bool have_cond = n <= 60 || mode == 2;
  if (have_cond) {
    std::vector<LD> A0(s.A.begin(), s.A.end()), L0;
    if (!cholesky_ld(A0, n, L0)) { r.discard = true; return r; }
    cond = cond_estimate(A0, L0, n);
    if (!(cond < 1e8L)) { r.discard = true; if (st) st->label("discard:cond>1e8"); return r; }
  }
  LD ynorm = 0, mnorm = 0;
  if (which == 4) { for (double v : s.yls) ynorm = std::max<LD>(ynorm, fabs(v)); for (double v : s.M) mnorm = std::max<LD>(mnorm, fabs(v)); }
  // solve
  cholmod_common c; cholmod_l_start(&c);
  photospline_verif_nnls_cap_hit = 0; photospline_verif_multirow_updates = 0;
  setenv("OMP_NUM_THREADS", std::to_string(nthreads).c_str(), 1);
  std::vector<double> x = run_solver(which, s, &c);
  if (getenv("VF_DEBUG_C11")) fprintf(stderr, "DBG n=%d which=%d threads=%d multirow=%ld\n", n, which, nthreads, photospline_verif_multirow_updates);
  if (st && photospline_verif_multirow_updates > 0) st->label("factor:multi_row_update_path");
  cholmod_l_finish(&c);
  // Known findings C11-*-iteration-cap: the block solvers can cycle and stop at their iteration limit with a
  // non-optimal (block/block_updown: even infeasible) vector.  Such solves are excluded and counted.
  // The listed findings: block3 and block_updown exhaust their iteration limits on systems of any kind (block_updown
  // also on a non-degenerate 6x6 badly scaled one, found by the value-profile fuzz twin), the plain block solver on
  // DEGENERATE systems (constructed optima with exactly-zero and tied components).  The plain block solver
  // exhausting its limit on a non-degenerate system is not among them and is reported.
  bool known_class = which == 0 || which == 2 || (which == 1 && s.constructed);
  if (photospline_verif_nnls_cap_hit && known_class && exclude_known()) {
    if (st) { st->excluded_known++; st->label(std::string("known:iteration_cap_exhausted:") + kSolverNames[which]); }
    return r;
  }
  if ((int)x.size() != n) { r.fail = std::string(kSolverNames[which]) + " returned no solution"; return r; }
  // tolerances tied to the solver's stated tolerance
  double stated = which == 0 ? (double)n * DBL_EPSILON * 1e5 : (which <= 2 ? 1e-6 : 0.0);
  double tol_x = which == 0 ? 0.0 : (which <= 2 ? 1e-6 : 0.0);
  int npos = 0, nzero = 0; bool bad = false; std::string why;
  LD amax = 0; for (double v : s.A) amax = std::max<LD>(amax, fabs(v));
  // rounding floor: the solvers' linear solves are backward stable in the norm sense, so the attainable
  // residual in any row is n*eps*max_k(|A||x|+|b|)_k (a componentwise bound does not hold for badly scaled rows)
  LD mmax = 0;
  for (int i = 0; i < n; i++) { LD m = fabs(s.b[i]); for (int j = 0; j < n; j++) m += fabsl((LD)s.A[(size_t)i * n + j] * x[j]); mmax = std::max(mmax, m); }
  for (int i = 0; i < n && !bad; i++) {
    if (!(x[i] >= -tol_x)) { bad = true; why = "component " + std::to_string(i) + " = " + jnum(x[i]) + " is negative beyond the stated tolerance"; break; }
    if (!std::isfinite(x[i])) { bad = true; why = "non-finite component"; break; }
    LD g = 0, m = 0;
    for (int j = 0; j < n; j++) { g += (LD)s.A[(size_t)i * n + j] * x[j]; m += fabsl((LD)s.A[(size_t)i * n + j] * x[j]); }
    g -= s.b[i]; m += fabs(s.b[i]);
    // the stated tolerances are absolute thresholds on the gradient (and on x for the block solvers);
    // an x error of tol_x moves the gradient by up to |A|*tol_x
    LD tol_g = 4 * stated + 4 * (LD)tol_x * amax * n + 64 * n * DBL_EPSILON * (mmax + mnorm * ynorm * s.mrows) * (1 + cond * 1e-3L);  // a solve on an ill-conditioned free set is only forward-accurate to cond*eps (found by the value-profile fuzz twin: Lawson-Hanson, cond 3e6, gradient 2e-12 of |A||x|)
    (void)m;
    if (x[i] > tol_x) { npos++; if (fabsl(g) > tol_g) { bad = true; why = "gradient " + jnum((double)g) + " on positive component " + std::to_string(i) + " (x=" + jnum(x[i]) + ") exceeds " + jnum((double)tol_g); } }
    else { nzero++; if (g < -tol_g) { bad = true; why = "negative gradient " + jnum((double)g) + " on zero component " + std::to_string(i) + " exceeds " + jnum((double)tol_g); } }
  }
  if (!bad) {
    // agreement with the unique minimiser
    std::vector<LD> A(s.A.begin(), s.A.end()), L;
    LD lmin = 1;
    if (have_cond && cholesky_ld(A, n, L)) { LD cond = cond_estimate(A, L, n); LD lmax = 0; for (int i = 0; i < n; i++) { LD rs = 0; for (int j = 0; j < n; j++) rs += fabsl(A[(size_t)i * n + j]); lmax = std::max(lmax, rs); } lmin = lmax / cond; }
    LD xn = 0; for (LD v : xstar) xn = std::max(xn, fabsl(v));
    LD bn = 0; for (double v : s.b) bn = std::max<LD>(bn, fabs(v));
    if (have_cond && !xstar.empty()) {
      LD dist_tol = 16 * n * (4 * stated + 4 * (LD)tol_x * amax * n + 64 * n * DBL_EPSILON * (amax * xn * n + bn)) / lmin + (LD)tol_x + 1e-12L * xn;
      for (int i = 0; i < n; i++) if (fabsl((LD)x[i] - xstar[i]) > dist_tol) { bad = true; why = "component " + std::to_string(i) + " = " + jnum(x[i]) + " differs from the constrained minimiser " + jnum((double)xstar[i]) + " by more than " + jnum((double)dist_tol); break; }
    }
  }
  if (st) {
    st->label(std::string("solver:") + kSolverNames[which]); st->label("class:" + s.cls); if (!s.cls_extra.empty()) st->label(s.cls_extra);
    int sp = 0, sz = 0; if (xstar.empty()) { sp = npos; sz = nzero; } else for (LD v : xstar) { if (v > 0) sp++; else sz++; }
    if (sp > 0 && sz > 0) { Hasher h; h.add(which); for (double v : s.A) h.addd(v); for (double v : s.b) h.addd(v); st->nontriv(h.h); st->label("active_set:mixed"); }
    st->sample(r.json);
  }
  if (bad) r.fail = std::string(kSolverNames[which]) + " (n=" + std::to_string(n) + ", " + s.cls + (photospline_verif_nnls_cap_hit ? ", iteration limit exhausted" : "") + "): " + why;
  return r;
}

CaseResult body_small(Chooser& ch, Stats* st) { return body(ch, st, 0); }
CaseResult body_large(Chooser& ch, Stats* st) { return body(ch, st, 1); }
CaseResult body_dense(Chooser& ch, Stats* st) { return body(ch, st, 2); }

}  // namespace

#ifdef VF_FUZZ
#include "common/vf_fuzz.hpp"
// coverage-guided twin over the small (enumerable) systems: with libFuzzer's value profile the iteration counters'
// comparisons become features, which steers the search towards inputs on which a solver runs long - the place where
// cycling and iteration-limit exhaustion live
CaseResult body_small_fuzz(Chooser& ch, Stats* st) { g_skip_enumeration = true; return body(ch, st, 0); }
VF_FUZZ_TARGET("C11", "kkt_small_fuzz", body_small_fuzz, nullptr)
#else
int main(int argc, char** argv) {
  Options o = parse_options(argc, argv);
  Prop a{"kkt_small", body_small, 4.0, 1, 1536, 60}, b{"kkt_large_sparse", body_large, 1.0, 1, 4096, 120},
       d{"kkt_medium_dense", body_dense, 2.0, 1, 2048, 120};
  return run_main(o, "C11", {a, b, d});
}
#endif
