// C06 — FITS serialisation round-trips every table exactly, in the documented layout.
// Four directions: independent writer -> library reader; library writer -> independent reader;
// library round trip (memory and disk); shipped reference files against committed digests.
#include "common/vf_rc.hpp"
#include "common/libtable.hpp"
#include <dirent.h>
#include <sys/stat.h>

using namespace vf;

namespace {

std::string tmpdir() {
  static std::string d;
  if (d.empty()) {
    const char* e = getenv("VF_TMP");
    d = e ? e : "/verif/build/tmp";
    mkdir(d.c_str(), 0777);
  }
  return d;
}
std::string tmpfile_path(const char* tag) {
  static int n = 0;
  return tmpdir() + "/" + tag + "-" + std::to_string(getpid()) + "-" + std::to_string(n++) + ".fits";
}
bool write_file(const std::string& p, const unsigned char* b, size_t n) {
  FILE* f = fopen(p.c_str(), "wb"); if (!f) return false;
  bool ok = fwrite(b, 1, n, f) == n; fclose(f); return ok;
}
bool read_file(const std::string& p, std::vector<unsigned char>& out) {
  FILE* f = fopen(p.c_str(), "rb"); if (!f) return false;
  unsigned char buf[65536]; size_t n; out.clear();
  while ((n = fread(buf, 1, sizeof buf, f)) > 0) out.insert(out.end(), buf, buf + n);
  fclose(f); return true;
}

bool same_float(float a, float b) {  // bit for bit for finite values; NaN stays NaN, inf stays the same inf
  if (std::isnan(a) || std::isnan(b)) return std::isnan(a) && std::isnan(b);
  return memcmp(&a, &b, 4) == 0;
}
std::string rtrim(std::string s) { while (!s.empty() && s.back() == ' ') s.pop_back(); return s; }

static const std::vector<std::string> kShortKeys = {"A", "KEY1", "ABCDEFGH", "X9", "Z0Z0", "GEOMETRY", "LEVEL", "N"};
static const std::vector<std::string> kLongKeys = {"LONGKEYNAME1", "A LONG KEY", "GEOMETRY TYPE", "VERY LONG KEY NAME WITH MANY WORDS 123"};

std::string gen_value(Chooser& ch, size_t maxlen) {
  switch (ch.draw(0, 4)) {
    case 0: return std::to_string(ch.range(-100000, 100000));
    case 1: { char b[40]; snprintf(b, sizeof b, "%g", (double)ch.range(-1000, 1000) / 7.0); return b; }
    case 2: return "x";
    default: {
      static const char alphabet[] = "abcdefghijklmnopqrstuvwxyzABCDEFGHIJKLMNOPQRSTUVWXYZ0123456789 _-+=/.,:;()[]{}<>!?@#$%^&*|~";
      size_t n = 1 + ch.draw(0, maxlen - 1);
      std::string s;
      for (size_t i = 0; i < n; i++) s += alphabet[ch.draw(0, sizeof(alphabet) - 2)];
      // leading blanks are significant in FITS strings, trailing ones are not: avoid an all-blank or blank-ended value
      if (s.back() == ' ') s.back() = 'q';
      if (s.front() == ' ') s.front() = 'p';
      return s;
    }
  }
}

TableSpec gen_fits_spec(Chooser& ch, Stats* st) {
  SpecOpts so; so.distinct_axes = true; so.max_coeffs = (ch.coin(1, 20) ? 40000 : 3000); so.max_terms = 2500;
  TableSpec s = gen_spec(ch, so);
  // special coefficient values
  if (ch.coin(1, 2)) {
    static const uint32_t specials[] = {0x00000001u /*denormal*/, 0x007fffffu, 0x7f7fffffu /*FLT_MAX*/, 0x80000000u /*-0*/, 0x7f800000u /*inf*/,
                                        0xff800000u, 0x7fc00000u /*qNaN*/, 0x7fc12345u, 0xffc00001u, 0x7fa00000u /*sNaN*/, 0x00800000u /*FLT_MIN*/};
    int n = 1 + (int)ch.draw(0, 5);
    for (int i = 0; i < n; i++) {
      uint32_t u = specials[ch.draw(0, sizeof(specials) / 4 - 1)];
      float f; memcpy(&f, &u, 4);
      s.coeff[ch.draw(0, s.coeff.size() - 1)] = f;
    }
    s.coeff_class += "+special";
    if (st) st->label("coeff:special_values");
  }
  // extents, periods
  if (ch.coin(1, 2)) { for (auto& d : s.dims) { d.ext_lo = d.knots.front() + (double)ch.range(-3, 3) / 4.0; d.ext_hi = d.knots.back() + (double)ch.range(-3, 3) / 4.0; } if (st) st->label("extents:nondefault"); }
  if (ch.coin(1, 2)) { int i = 1; for (auto& d : s.dims) d.period = (double)(i++) * 1.5 + (double)ch.draw(0, 3); if (st) st->label("periods:nonzero"); }
  // aux keys (accepted alphabet only)
  int naux = ch.coin(1, 3) ? 0 : (int)ch.draw(1, ch.coin(1, 4) ? 30 : 6);
  std::set<std::string> used;
  for (int i = 0; i < naux; i++) {
    bool lng = ch.coin(1, 3);
    std::string k = lng ? ch.pick(kLongKeys) : ch.pick(kShortKeys);
    if (i >= 8) k = lng ? "SERIES KEY NUMBER " + std::to_string(i) : "K" + std::to_string(i);
    if (!used.insert(k).second) continue;
    size_t maxlen = k.size() > 8 ? 60 - k.size() : 68;
    s.aux.push_back({k, gen_value(ch, maxlen)});
  }
  if (st && !s.aux.empty()) st->label("aux:present");
  // legacy variants
  int legacy = (int)ch.draw(0, 5);
  if (legacy == 0) { bool same = true; for (auto& d : s.dims) if (d.order != s.dims[0].order) same = false; if (same) { s.legacy_order = true; if (st) st->label("legacy:single_ORDER"); } }
  if (legacy == 1) { s.has_extents = false; for (auto& d : s.dims) { d.ext_lo = d.knots[d.order]; d.ext_hi = d.knots[d.knots.size() - d.order - 1]; } if (st) st->label("legacy:no_EXTENTS"); }
  if (legacy == 2) { s.has_periods = false; for (auto& d : s.dims) d.period = 0; if (st) st->label("legacy:no_PERIOD"); }
  return s;
}

bool nontrivial_spec(const TableSpec& s) {
  bool unequal = false;
  for (size_t d = 1; d < s.dims.size(); d++) if (s.dims[d].nfun() != s.dims[0].nfun()) unequal = true;
  return (s.ndim() >= 2 && unequal) || s.coeff_class.find("special") != std::string::npos || !s.aux.empty() || s.legacy_order || !s.has_extents || !s.has_periods;
}

// every getter of a live table against the spec
std::string compare_with_spec(const Table& t, const TableSpec& s, bool check_aux = true) {
  if (t.get_ndim() != s.ndim()) return "ndim " + std::to_string(t.get_ndim()) + " != " + std::to_string(s.ndim());
  auto st = s.strides();
  for (uint32_t d = 0; d < s.ndim(); d++) {
    std::string D = " in dimension " + std::to_string(d);
    if (t.get_order(d) != s.dims[d].order) return "order differs" + D;
    if (t.get_nknots(d) != s.dims[d].knots.size()) return "knot count differs" + D;
    for (size_t i = 0; i < s.dims[d].knots.size(); i++) if (!same_bits(t.get_knot(d, i), s.dims[d].knots[i])) return "knot " + std::to_string(i) + " differs" + D;
    if (t.get_ncoeffs(d) != s.dims[d].nfun()) return "coefficient count differs" + D;
    if (t.get_stride(d) != st[d]) return "stride differs" + D + ": " + std::to_string(t.get_stride(d)) + " != " + std::to_string(st[d]);
    if (!same_bits(t.lower_extent(d), s.dims[d].ext_lo) || !same_bits(t.upper_extent(d), s.dims[d].ext_hi)) return "extents differ" + D + ": [" + jnum(t.lower_extent(d)) + "," + jnum(t.upper_extent(d)) + "] != [" + jnum(s.dims[d].ext_lo) + "," + jnum(s.dims[d].ext_hi) + "]";
    if (!same_bits(t.get_period(d), s.dims[d].period)) return "period differs" + D + ": " + jnum(t.get_period(d)) + " != " + jnum(s.dims[d].period);
  }
  if (t.get_ncoeffs() != s.ncoeff()) return "total coefficient count differs";
  const float* c = t.get_coefficients();
  for (size_t i = 0; i < s.coeff.size(); i++) if (!same_float(c[i], s.coeff[i])) return "coefficient " + std::to_string(i) + " differs: " + jnum(c[i]) + " != " + jnum(s.coeff[i]);
  if (check_aux) {
    if (t.get_naux_values() != s.aux.size()) return "number of auxiliary keys " + std::to_string(t.get_naux_values()) + " != " + std::to_string(s.aux.size());
    for (size_t i = 0; i < s.aux.size(); i++) {
      if (s.aux[i].first != t.get_aux_key(i)) return "auxiliary key #" + std::to_string(i) + " is '" + t.get_aux_key(i) + "', expected '" + s.aux[i].first + "'";
      const char* v = t.get_aux_value(s.aux[i].first.c_str());
      if (!v) return "auxiliary key '" + s.aux[i].first + "' not found";
      if (rtrim(v) != rtrim(s.aux[i].second)) return "auxiliary value of '" + s.aux[i].first + "' is '" + v + "', expected '" + s.aux[i].second + "'";
    }
  }
  return "";
}

// the documented byte layout, recovered by the independent parser
std::string check_layout(const std::vector<unsigned char>& bytes, const TableSpec& s) {
  std::vector<fits::PHDU> hs;
  std::string e = fits::parse(bytes.data(), bytes.size(), hs);
  if (!e.empty()) return "independent parser: " + e;
  size_t nd = s.ndim();
  if (hs.size() != 1 + nd + 1) return "expected " + std::to_string(nd + 2) + " HDUs (coefficients, KNOTSn, EXTENTS), found " + std::to_string(hs.size());
  const fits::PHDU& p = hs[0];
  if (p.bitpix != -32) return "coefficient image BITPIX is " + std::to_string(p.bitpix) + ", not -32";
  if (p.naxes.size() != nd) return "NAXIS != ndim";
  for (size_t i = 0; i < nd; i++) if ((uint64_t)p.naxes[i] != s.dims[nd - 1 - i].nfun()) return "NAXIS" + std::to_string(i + 1) + " is not the reversed axis length";
  if (p.data_len != 4 * s.coeff.size()) return "coefficient data length";
  for (size_t i = 0; i < s.coeff.size(); i++) if (!same_float(fits::get_f32(bytes.data() + p.data_off + 4 * i), s.coeff[i])) return "coefficient " + std::to_string(i) + " in the file differs (C order, big-endian float expected)";
  for (size_t d = 0; d < nd; d++) {
    const fits::PCard* c = p.find("ORDER" + std::to_string(d));
    if (!c || atol(c->value.c_str()) != (long)s.dims[d].order) return "ORDER" + std::to_string(d) + " keyword missing or wrong";
    c = p.find("PERIOD" + std::to_string(d));
    if (!c || strtod(c->value.c_str(), 0) != s.dims[d].period) return "PERIOD" + std::to_string(d) + " keyword missing or wrong";
  }
  // aux cards, in order
  size_t ai = 0;
  for (auto& c : p.cards) {
    if (ai < s.aux.size() && c.key == s.aux[ai].first) {
      if (rtrim(c.value) != rtrim(s.aux[ai].second)) return "auxiliary card '" + c.key + "' holds '" + c.value + "', expected '" + s.aux[ai].second + "'";
      ai++;
    }
  }
  if (ai != s.aux.size()) return "auxiliary cards missing or out of order in the header (found " + std::to_string(ai) + " of " + std::to_string(s.aux.size()) + ")";
  for (size_t d = 0; d < nd; d++) {
    const fits::PHDU& k = hs[1 + d];
    if (k.xtension != "IMAGE" || k.extname != "KNOTS" + std::to_string(d)) return "extension " + std::to_string(d + 1) + " is not the image KNOTS" + std::to_string(d);
    if (k.bitpix != -64) return "KNOTS" + std::to_string(d) + " BITPIX is " + std::to_string(k.bitpix) + ", not -64";
    if (k.naxes.size() != 1 || (size_t)k.naxes[0] != s.dims[d].knots.size()) return "KNOTS" + std::to_string(d) + " has the wrong length";
    for (size_t i = 0; i < s.dims[d].knots.size(); i++) if (!same_bits(fits::get_f64(bytes.data() + k.data_off + 8 * i), s.dims[d].knots[i])) return "knot value differs in the file";
  }
  const fits::PHDU& x = hs[1 + nd];
  if (x.extname != "EXTENTS" || x.bitpix != -64 || x.naxes.size() != 1 || (size_t)x.naxes[0] != 2 * nd) return "EXTENTS extension missing or of wrong shape";
  for (size_t d = 0; d < nd; d++)
    if (!same_bits(fits::get_f64(bytes.data() + x.data_off + 16 * d), s.dims[d].ext_lo) || !same_bits(fits::get_f64(bytes.data() + x.data_off + 16 * d + 8), s.dims[d].ext_hi)) return "EXTENTS values differ";
  return "";
}

CaseResult body_roundtrip(Chooser& ch, Stats* st) {
  CaseResult r;
  QuietStderr q;
  TableSpec s = gen_fits_spec(ch, st);
  bool disk_in = ch.coin(1, 4), disk_out = ch.coin(1, 3);
  std::ostringstream js;
  js << "{\"spec\":" << s.json(6) << ",\"naux\":" << s.aux.size() << ",\"legacy_order\":" << s.legacy_order << ",\"has_extents\":" << s.has_extents
     << ",\"has_periods\":" << s.has_periods << ",\"read_from\":" << jstr(disk_in ? "disk" : "memory") << ",\"written_to\":" << jstr(disk_out ? "disk" : "memory") << "}";
  r.json = js.str();
  if (st) {
    st->label("ndim:" + std::to_string(s.ndim())); st->label(disk_in ? "in:disk" : "in:memory"); st->label(disk_out ? "out:disk" : "out:memory");
    if (nontrivial_spec(s)) { Hasher h; h.add(s.hash()); h.add(s.aux.size()); h.add(disk_in * 2 + disk_out); st->nontriv(h.h); }
    st->sample(r.json);
  }
  // (a) independent writer -> library reader
  std::vector<unsigned char> bytes = spec_to_fits(s);
  Table t;
  try {
    if (disk_in) {
      std::string p = tmpfile_path("c06in");
      if (!write_file(p, bytes.data(), bytes.size())) { r.fail = "harness: cannot write temp file"; return r; }
      try { t.read_fits(p); } catch (...) { unlink(p.c_str()); throw; }
      unlink(p.c_str());
    } else t.read_fits_mem(bytes.data(), bytes.size());
  } catch (std::exception& e) { r.fail = std::string("(a) library rejected a file written in the documented layout: ") + e.what(); return r; }
  std::string e = compare_with_spec(t, s);
  if (!e.empty()) { r.fail = "(a) independent writer -> library reader: " + e; return r; }
  // keys added through write_key, with values around the length at which the header card is full: whatever
  // write_key accepts must come back from the file (which values it accepts is C16's subject, not asserted here)
  if (gen_version() >= 2 && ch.coin(1, 2)) {
    int nadd = 1 + (int)ch.draw(0, 2);
    for (int i = 0; i < nadd; i++) {
      bool lng = ch.coin(1, 2);
      std::string k = lng ? "ADDED KEY " + std::string(ch.draw(0, 40), 'W') + std::to_string(i) : "ADD" + std::to_string(i);
      long full = lng ? 68 - (long)k.size() : 68;
      long n = ch.coin(1, 3) ? (long)ch.draw(0, 75) : full + ch.range(-3, 3);
      if (n < 1) n = 1;
      static const char alphabet[] = "abcdefghijklmnopqrstuvwxyzABCDEFGHIJKLMNOPQRSTUVWXYZ0123456789_-+=/.,:;()[]{}<>!?@#$%^&*|~";
      std::string v; for (long c = 0; c < n; c++) v += alphabet[ch.draw(0, sizeof(alphabet) - 2)];
      bool accepted = true;
      try { t.write_key(k.c_str(), v); } catch (std::exception&) { accepted = false; }
      if (accepted) s.aux.push_back({k, v});
      if (st) { st->label(accepted ? "aux:added_by_write_key" : "aux:write_key_refused"); if (accepted && n >= full - 1) st->label("aux:added_value_fills_card"); }
    }
  }
  // (b) library writer -> independent reader
  std::vector<unsigned char> out;
  try {
    if (disk_out) {
      std::string p = tmpfile_path("c06out");
      try { t.write_fits(p); } catch (...) { unlink(p.c_str()); throw; }
      bool ok = read_file(p, out); unlink(p.c_str());
      if (!ok) { r.fail = "(b) write_fits returned but the file cannot be read back"; return r; }
    } else {
      auto buf = t.write_fits_mem();
      out.assign((unsigned char*)buf.first, (unsigned char*)buf.first + buf.second);
      free(buf.first);
    }
  } catch (std::exception& e) { r.fail = std::string("(b) writer threw on a valid table: ") + e.what(); return r; }
  TableSpec expect = s; expect.legacy_order = false; expect.has_extents = true; expect.has_periods = true;
  e = check_layout(out, expect);
  if (!e.empty()) { r.fail = "(b) library writer -> independent reader: " + e; return r; }
  // (c) library round trip
  Table t2;
  try { t2.read_fits_mem(out.data(), out.size()); } catch (std::exception& e) { r.fail = std::string("(c) library cannot read back what it wrote: ") + e.what(); return r; }
  e = compare_with_spec(t2, expect);
  if (!e.empty()) { r.fail = "(c) round trip: " + e; return r; }
  bool has_nan = false;
  for (float c : s.coeff) if (std::isnan(c)) has_nan = true;
  if (!has_nan) { if (!(t == t2) || (t != t2)) { r.fail = "(c) round-tripped table does not compare equal to the original"; return r; } }
  else if (st) st->label("nan_coefficients:equality_not_asserted");
  // identical evaluation
  size_t nd = s.ndim();
  for (int p = 0; p < 4; p++) {
    std::vector<double> x(nd); std::vector<int> c1(nd), c2(nd);
    for (size_t d = 0; d < nd; d++) { x[d] = gen_coord_inside(ch, s.dims[d]); avoid_known_point(s.dims[d], x[d]); }
    bool o1 = t.searchcenters(x.data(), c1.data()), o2 = t2.searchcenters(x.data(), c2.data());
    if (o1 != o2 || (o1 && c1 != c2)) { r.fail = "(c) center lookup differs after the round trip"; return r; }
    if (!o1) continue;
    double v1 = t.ndsplineeval(x.data(), c1.data(), 0), v2 = t2.ndsplineeval(x.data(), c2.data(), 0);
    if (!same_bits(v1, v2) && !(std::isnan(v1) && std::isnan(v2))) { r.fail = "(c) evaluation differs after the round trip: " + jnum(v1) + " vs " + jnum(v2); return r; }
  }
  return r;
}

// (d) shipped reference files: library and independent parser agree, canonical dump matches the committed digest
uint64_t canonical_digest(const Table& t) {
  Hasher h;
  h.add(t.get_ndim());
  for (uint32_t d = 0; d < t.get_ndim(); d++) {
    h.add(t.get_order(d)); h.add(t.get_nknots(d));
    for (uint64_t i = 0; i < t.get_nknots(d); i++) h.addd(t.get_knot(d, i));
    h.add(t.get_ncoeffs(d)); h.add(t.get_stride(d)); h.addd(t.lower_extent(d)); h.addd(t.upper_extent(d)); h.addd(t.get_period(d));
  }
  const float* c = t.get_coefficients();
  for (uint64_t i = 0; i < t.get_ncoeffs(); i++) { uint32_t u; memcpy(&u, &c[i], 4); h.add(u); }
  for (size_t i = 0; i < t.get_naux_values(); i++) { h.adds(t.get_aux_key(i)); h.adds(rtrim(t.get_aux_value(t.get_aux_key(i)))); }
  return h.h;
}

CaseResult body_shipped(Chooser& ch, Stats* st) {
  CaseResult r;
  QuietStderr q;
  std::string dir = std::string(getenv("VERIF_REPO") ? getenv("VERIF_REPO") : "/repo") + "/test/test_data";
  std::vector<std::string> files;
  if (DIR* d = opendir(dir.c_str())) { while (dirent* e = readdir(d)) { std::string n = e->d_name; if (n.size() > 5 && n.substr(n.size() - 5) == ".fits") files.push_back(n); } closedir(d); }
  std::sort(files.begin(), files.end());
  // golden digests
  std::map<std::string, std::string> golden;
  { FILE* f = fopen("/verif/golden/shipped.digest", "r"); if (f) { char n[256], h[64]; while (fscanf(f, "%255s %63s", n, h) == 2) golden[n] = h; fclose(f); } }
  if (files.empty()) { r.fail = "harness: no shipped files found in " + dir; return r; }
  (void)ch.draw(0, 1);
  std::ostringstream js; js << "{\"files\":[";
  for (size_t i = 0; i < files.size(); i++) {
    js << (i ? "," : "") << jstr(files[i]);
    std::vector<unsigned char> bytes;
    if (!read_file(dir + "/" + files[i], bytes)) { r.fail = "cannot read " + files[i]; break; }
    Table t;
    try { t.read_fits(dir + "/" + files[i]); } catch (std::exception& e) { r.fail = files[i] + ": library failed to read a shipped file: " + e.what(); break; }
    // independent parse -> spec -> compare
    std::vector<fits::PHDU> hs;
    std::string e = fits::parse(bytes.data(), bytes.size(), hs);
    if (!e.empty()) { r.fail = files[i] + ": independent parser: " + e; break; }
    TableSpec s;
    size_t nd = hs[0].naxes.size();
    for (size_t d = 0; d < nd; d++) {
      DimSpec ds;
      const fits::PCard* c = hs[0].find("ORDER" + std::to_string(d));
      if (!c) c = hs[0].find("ORDER");
      if (!c) { e = "no ORDER card"; break; }
      ds.order = (uint32_t)atol(c->value.c_str());
      const fits::PHDU* kh = nullptr;
      for (auto& h : hs) if (h.extname == "KNOTS" + std::to_string(d)) kh = &h;
      if (!kh || kh->bitpix != -64) { e = "no KNOTS extension"; break; }
      for (long k = 0; k < kh->naxes[0]; k++) ds.knots.push_back(fits::get_f64(bytes.data() + kh->data_off + 8 * k));
      if ((uint64_t)hs[0].naxes[nd - 1 - d] != ds.nfun()) { e = "axis length does not match knots/order"; break; }
      c = hs[0].find("PERIOD" + std::to_string(d));
      ds.period = c ? strtod(c->value.c_str(), 0) : 0;
      ds.ext_lo = ds.knots[ds.order]; ds.ext_hi = ds.knots[ds.knots.size() - ds.order - 1];
      s.dims.push_back(ds);
    }
    if (!e.empty()) { r.fail = files[i] + ": " + e; break; }
    for (auto& h : hs) if (h.extname == "EXTENTS" && (size_t)h.naxes[0] == 2 * nd) for (size_t d = 0; d < nd; d++) { s.dims[d].ext_lo = fits::get_f64(bytes.data() + h.data_off + 16 * d); s.dims[d].ext_hi = fits::get_f64(bytes.data() + h.data_off + 16 * d + 8); }
    if (hs[0].bitpix != -32) { r.fail = files[i] + ": coefficient image is not BITPIX -32"; break; }
    for (uint64_t k = 0; k < s.ncoeff(); k++) s.coeff.push_back(fits::get_f32(bytes.data() + hs[0].data_off + 4 * k));
    e = compare_with_spec(t, s, false);
    if (!e.empty()) { r.fail = files[i] + ": library and independent reader disagree: " + e; break; }
    char hx[32]; snprintf(hx, sizeof hx, "%016" PRIx64, canonical_digest(t));
    if (getenv("VF_PRINT_DIGESTS")) { printf("DIGEST %s %s\n", files[i].c_str(), hx); continue; }
    auto g = golden.find(files[i]);
    if (g == golden.end()) { r.fail = files[i] + ": no committed digest (golden/shipped.digest)"; break; }
    if (g->second != hx) { r.fail = files[i] + ": decodes to a different table than the committed digest (" + hx + " vs " + g->second + ")"; break; }
    if (st) { st->label("shipped_file_checked"); Hasher h; h.adds(files[i]); st->nontriv(h.h); }
  }
  js << "]}";
  r.json = js.str();
  if (st) st->sample(r.json);
  return r;
}

}  // namespace

int main(int argc, char** argv) {
  Options o = parse_options(argc, argv);
  Prop a{"roundtrip", body_roundtrip, 1.0};
  Prop b{"shipped", body_shipped, 0.0005};
  return run_main(o, "C06", {a, b});
}
