// c08_interpose.cpp — stdio interposer for C08.  The harness executable defines the stdio entry
// points cfitsio's disk driver uses; linked with -rdynamic, libcfitsio.so resolves them here.
// For the FILE* opened on the target path the interposer records the operation trace and can
// fail the k-th operation.  Everything else is forwarded untouched.
#ifndef _GNU_SOURCE
#define _GNU_SOURCE 1
#endif
#include <dlfcn.h>
#include <execinfo.h>
#include <stdlib.h>
#include <errno.h>
#include <stdio.h>
#include <string.h>
#include <unistd.h>
#include <string>
#include <vector>
#include "c08_interpose.h"

namespace c08 {
State g;
State& state() { return g; }
}  // namespace c08

using c08::g;

namespace {
template <class F> F real(const char* name) { static void* p = nullptr; (void)p; return (F)dlsym(RTLD_NEXT, name); }
typedef FILE* (*fopen_t)(const char*, const char*);
typedef size_t (*fwrite_t)(const void*, size_t, size_t, FILE*);
typedef int (*fflush_t)(FILE*);
typedef int (*fclose_t)(FILE*);
typedef int (*fseeko_t)(FILE*, off_t, int);
typedef int (*fseek_t)(FILE*, long, int);
typedef off_t (*ftello_t)(FILE*);
typedef int (*ftruncate_t)(int, off_t);
typedef int (*remove_t)(const char*);

// the target itself, or a sibling derived from its name (a writer may build the file under a temporary name and move
// it into place: "<target>.tmp", "<target>~", ...)
bool is_target_path(const char* p) {
  if (!g.active || !p || g.target.empty()) return false;
  size_t n = g.target.size(), m = strlen(p);
  return m >= n && m <= n + 16 && memcmp(p, g.target.data(), n) == 0;
}
bool is_target(FILE* f) { return g.active && f && f == g.fp; }

// returns true when this operation is the one selected to fail
bool step(c08::OpKind k) {
  g.nops++;
  if (g.fail_at > 0 && (g.nops == g.fail_at || (g.sticky && g.nops > g.fail_at && g.failed))) {
    if (g.nops == g.fail_at) { g.failed = true; g.failed_kind = k; }
    return true;
  }
  return false;
}

FILE* do_fopen(const char* name, const char* path, const char* mode) {
  fopen_t r = real<fopen_t>(name);
  if (!is_target_path(path)) return r(path, mode);
  bool fail = step(c08::OP_OPEN);
  if (fail) { errno = g.err; return nullptr; }
  FILE* f = r(path, mode);
  if (f) { g.fp = f; g.opens++; if (g.record) g.trace.push_back({c08::OP_OPEN, 0, {}, 0}); }
  return f;
}
}  // namespace

extern "C" {

FILE* fopen(const char* path, const char* mode) { return do_fopen("fopen", path, mode); }
FILE* fopen64(const char* path, const char* mode) { return do_fopen("fopen64", path, mode); }

size_t fwrite(const void* ptr, size_t size, size_t n, FILE* f) {
  fwrite_t r = real<fwrite_t>("fwrite");
  if (!is_target(f)) return r(ptr, size, n, f);
  ftello_t tell = real<ftello_t>("ftello64");
  long long pos = tell(f);
  bool fail = step(c08::OP_WRITE);
  size_t bytes = size * n;
  if (fail && getenv("VF_VERBOSE") && g.nops == g.fail_at) { void* bt[24]; int n = backtrace(bt, 24); backtrace_symbols_fd(bt, n, 2); }
  if (fail) {
    size_t part = (g.partial_bytes < bytes && g.nops == g.fail_at) ? g.partial_bytes : 0;  // only the first failing write is short; later ones write nothing
    if (part) r(ptr, 1, part, f);
    if (g.record && part) g.trace.push_back({c08::OP_WRITE, pos, std::vector<unsigned char>((const unsigned char*)ptr, (const unsigned char*)ptr + part), 0});
    errno = g.err;
    return size ? part / size : 0;
  }
  size_t w = r(ptr, size, n, f);
  if (g.record) g.trace.push_back({c08::OP_WRITE, pos, std::vector<unsigned char>((const unsigned char*)ptr, (const unsigned char*)ptr + w * size), 0});
  return w;
}

int fflush(FILE* f) {
  fflush_t r = real<fflush_t>("fflush");
  if (!is_target(f)) return r(f);
  bool fail = step(c08::OP_FLUSH);
  if (g.record) g.trace.push_back({c08::OP_FLUSH, 0, {}, 0});
  if (fail) { errno = g.err; return EOF; }
  return r(f);
}

int fclose(FILE* f) {
  fclose_t r = real<fclose_t>("fclose");
  if (!is_target(f)) return r(f);
  bool fail = step(c08::OP_CLOSE);
  g.closes++;
  g.fp = nullptr;
  if (g.record) g.trace.push_back({c08::OP_CLOSE, 0, {}, 0});
  int rc = r(f);
  if (fail) { errno = g.err; return EOF; }
  return rc;
}

int fseeko(FILE* f, off_t off, int whence) {
  fseeko_t r = real<fseeko_t>("fseeko");
  if (!is_target(f)) return r(f, off, whence);
  (void)step(c08::OP_SEEK);  // a boundary, but never failed: the property lists no-space, size-limit, write and close errors
  if (g.failed && g.failed_kind == c08::OP_SEEK) g.failed = false;
  return r(f, off, whence);
}
int fseeko64(FILE* f, off64_t off, int whence) {
  typedef int (*fseeko64_t)(FILE*, off64_t, int);
  fseeko64_t r = real<fseeko64_t>("fseeko64");
  if (!is_target(f)) return r(f, off, whence);
  (void)step(c08::OP_SEEK);  // a boundary, but never failed: the property lists no-space, size-limit, write and close errors
  if (g.failed && g.failed_kind == c08::OP_SEEK) g.failed = false;
  return r(f, off, whence);
}
int fseek(FILE* f, long off, int whence) {
  fseek_t r = real<fseek_t>("fseek");
  if (!is_target(f)) return r(f, off, whence);
  (void)step(c08::OP_SEEK);  // a boundary, but never failed: the property lists no-space, size-limit, write and close errors
  if (g.failed && g.failed_kind == c08::OP_SEEK) g.failed = false;
  return r(f, off, whence);
}

int ftruncate(int fd, off_t len) {
  ftruncate_t r = real<ftruncate_t>("ftruncate");
  if (!(g.active && g.fp && fileno(g.fp) == fd)) return r(fd, len);
  bool fail = step(c08::OP_TRUNCATE);
  if (fail) { errno = g.err; return -1; }
  if (g.record) g.trace.push_back({c08::OP_TRUNCATE, 0, {}, (long long)len});
  return r(fd, len);
}
int ftruncate64(int fd, off64_t len) {
  typedef int (*ft64_t)(int, off64_t);
  ft64_t r = real<ft64_t>("ftruncate64");
  if (!(g.active && g.fp && fileno(g.fp) == fd)) return r(fd, len);
  bool fail = step(c08::OP_TRUNCATE);
  if (fail) { errno = g.err; return -1; }
  if (g.record) g.trace.push_back({c08::OP_TRUNCATE, 0, {}, (long long)len});
  return r(fd, len);
}

int rename(const char* from, const char* to) {
  typedef int (*rename_t)(const char*, const char*);
  rename_t r = real<rename_t>("rename");
  if (!(is_target_path(from) || is_target_path(to))) return r(from, to);
  bool fail = step(c08::OP_RENAME);   // moving the finished file into place is a step of the write; it can fail (ENOSPC, EIO, EDQUOT on the directory)
  if (g.record) g.trace.push_back({c08::OP_RENAME, 0, {}, 0});
  if (fail) { errno = g.err; return -1; }
  return r(from, to);
}

int remove(const char* path) {
  remove_t r = real<remove_t>("remove");
  if (is_target_path(path)) { g.removes++; if (g.record) g.trace.push_back({c08::OP_REMOVE, 0, {}, 0}); }
  return r(path);
}

}  // extern "C"
