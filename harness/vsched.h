// vsched.h — control block of the schedule-owning pthread shim (see vsched.cpp)
#pragma once
#include <cstdint>
#include <string>
#include <utility>
#include <vector>
namespace vs {
struct Control {
  std::vector<int> prefix;                 // forced choices (index into the sorted runnable set)
  int policy = 0;                          // beyond the prefix: 0 lowest id first, 1 uniform random, 2 PCT priorities
  uint64_t seed = 1;
  int pct_changes = 2;
  long max_steps = 20000;
  int preempt_bound = -1;                  // >=0: at most this many preemptions (switching away from a thread that could continue)
  int preemptions = 0;
  int report_fd = -1;
  std::vector<std::pair<int, int>> trace;  // (choice, number of options) at every real choice point
  long window_hits = 0;                    // worker broadcasts that happened while the coordinator was between unlock and wait
  long switches = 0;
  int cpu_limit = -1;                      // >=0: sched_setaffinity to a CPU index >= this fails (fewer CPUs than workers, restricted cpuset)
};
Control& control();
void reset_for_child();
}  // namespace vs
