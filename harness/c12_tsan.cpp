// C12 (real threads) — monotonic fits under ThreadSanitizer with 1..32 workers.
// Any TSan report (data race, lock-order problem) aborts the process with exit code 96; the
// coefficients must be bit-identical for every worker count.
#include <cfloat>
#include "common/vf_rc.hpp"
#include "common/fitgen.hpp"

using namespace vf;

namespace {

CaseResult body(Chooser& ch, Stats* st) {
  CaseResult r;
  QuietStderr q;
  FitGenOpts fo; fo.max_ndim = 2; fo.min_order = 1; fo.max_order = 3; fo.max_coeff = 40; fo.max_rows = 400; fo.allow_sparse = false;
  FitProblem p = gen_fit_problem(ch, fo);
  uint32_t md = (uint32_t)ch.draw(0, p.ndim - 1);
  r.json = "{\"monodim\":" + std::to_string(md) + ",\"problem\":" + p.json(3) + "}";
  DenseSys S = assemble_reference(p);
  std::vector<LD> L;
  if (!cholesky_ld(S.A, S.n, L) || !(cond_estimate(S.A, L, S.n) < 1e6L)) { r.discard = true; return r; }
  static const int workers[] = {1, 2, 3, 5, 8, 16, 32};
  std::vector<float> first;
  for (int w : workers) {
    setenv("OMP_NUM_THREADS", std::to_string(w).c_str(), 1);
    Table t;
    try { run_fit(t, p, md); } catch (std::exception& e) { r.fail = std::string("monotonic fit threw with ") + std::to_string(w) + " workers: " + e.what(); return r; }
    std::vector<float> c(t.get_coefficients(), t.get_coefficients() + t.get_ncoeffs());
    if (first.empty()) first = c;
    else if (c.size() != first.size() || memcmp(c.data(), first.data(), c.size() * 4) != 0) { r.fail = "coefficients with " + std::to_string(w) + " workers differ from those with 1 worker"; return r; }
    if (st) st->label("fits");
  }
  if (st) { st->label("ndim:" + std::to_string(p.ndim)); Hasher h; h.add(md); for (double v : p.y) h.addd(v); for (uint32_t d = 0; d < p.ndim; d++) for (double k : p.knots[d]) h.addd(k); st->nontriv(h.h); st->sample(r.json); }
  return r;
}

}  // namespace

int main(int argc, char** argv) {
  Options o = parse_options(argc, argv);
  Prop a{"tsan_fits", body, 1.0};
  return run_main(o, "C12", {a});
}
