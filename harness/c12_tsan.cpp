// C12 (real threads) — monotonic fits under ThreadSanitizer with 1..32 workers.
// Any TSan report (data race, lock-order problem) aborts the process with exit code 96; the
// coefficients must be bit-identical for every worker count.
#include <cfloat>
#include <sched.h>
#include <atomic>
#include <cholmod.h>
#include "cholesky_solve.h"  // /repo/src/fitter (added to the include path for this unit)
#include <errno.h>
#include "common/vf_rc.hpp"
#include "common/fitgen.hpp"

using namespace vf;

// 0: every pin succeeds; n > 0: pinning to a CPU index >= n fails with EINVAL (see body)
static int g_usable_cpus = 0;
static std::atomic<long> g_pin_calls{0};   // every worker of every line search pins itself once: a count of line searches x workers
extern "C" int sched_setaffinity(pid_t, size_t sz, const cpu_set_t* set) noexcept {
  g_pin_calls++;
  if (g_usable_cpus > 0 && set) for (int cpu = 0; cpu < (int)(sz * 8) && cpu < CPU_SETSIZE; cpu++) if (CPU_ISSET_S(cpu, sz, set)) { if (cpu >= g_usable_cpus) { errno = EINVAL; return -1; } break; }
  return 0;
}

namespace {

CaseResult body(Chooser& ch, Stats* st) {
  CaseResult r;
  QuietStderr q;
  FitGenOpts fo; fo.max_ndim = 2; fo.min_order = 1; fo.max_order = 3; fo.max_coeff = 60; fo.max_rows = 500; fo.allow_sparse = false;
  FitProblem p = gen_fit_problem(ch, fo);
  uint32_t md = (uint32_t)ch.draw(0, p.ndim - 1);
  // three quarters of the data sets fall and oscillate along the monotonic dimension, so that the constraint is
  // active and the solver needs its parallel line search (with the generator's shapes only a third of the fits did)
  if (gen_version() >= 2 && ch.draw(0, 3) != 0) {
    double lo = p.knots[md].front(), hi = p.knots[md].back();
    for (size_t row = 0; row < p.nrows(); row++) { double u = (p.coords[md][p.idx[md][row]] - lo) / (hi - lo); double o = 0; for (uint32_t d = 0; d < p.ndim; d++) if (d != md) o += p.coords[d][p.idx[d][row]]; p.y[row] = 3.0 - 4.0 * u + 1.5 * sin(11.0 * u + o); }
    p.data_class = "falling_oscillating+" + p.data_class.substr(p.data_class.find('+') == std::string::npos ? p.data_class.size() : p.data_class.find('+') + 1);
  }
  r.json = "{\"monodim\":" + std::to_string(md) + ",\"problem\":" + p.json(3) + "}";
  DenseSys S = assemble_reference(p);
  std::vector<LD> L;
  if (!cholesky_ld(S.A, S.n, L) || !(cond_estimate(S.A, L, S.n) < 1e6L)) { r.discard = true; return r; }
  static const int workers[] = {1, 2, 3, 5, 8, 16, 32};
  // a process confined to a few CPUs (container, cpuset, or simply more workers than CPUs): pinning worker k to
  // CPU k then fails for k >= the number of usable CPUs.  The executable's own sched_setaffinity (below) stands in
  // for the kernel's so that this does not depend on the machine the check runs on.
  static const int cpus[] = {0, 0, 2, 3};
  g_usable_cpus = gen_version() >= 2 ? cpus[ch.draw(0, 3)] : 0;
  struct Reset { ~Reset() { g_usable_cpus = 0; } } reset;
  if (st) st->label(g_usable_cpus ? "cpus:restricted" : "cpus:all");
  std::vector<float> first;
  long pins0 = g_pin_calls;
  for (int w : workers) {
    setenv("OMP_NUM_THREADS", std::to_string(w).c_str(), 1);
    Table t;
    try { run_fit(t, p, md); } catch (std::exception& e) { r.fail = std::string("monotonic fit threw with ") + std::to_string(w) + " workers: " + e.what(); return r; }
    std::vector<float> c(t.get_coefficients(), t.get_coefficients() + t.get_ncoeffs());
    if (first.empty()) first = c;
    else {
      // modify_factor's choice between row updates and a refactorization depends on the worker count, so the two
      // runs may round differently in double precision; anything beyond a few float ulps is a different result
      float mx = 0; for (float v : first) mx = std::max(mx, std::fabs(v));
      bool same = c.size() == first.size();
      for (size_t i = 0; same && i < c.size(); i++) if (!(std::fabs(c[i] - first[i]) <= 16 * FLT_EPSILON * mx)) same = false;
      if (!same) { r.fail = "coefficients with " + std::to_string(w) + " workers differ from those with 1 worker"; return r; }
      if (st && memcmp(c.data(), first.data(), c.size() * 4) != 0) st->label("coefficients:equal_within_rounding_only");
    }
    if (st) st->label("fits");
  }
  if (st) { long ls = (g_pin_calls - pins0) / 67; st->label(ls == 0 ? "line_searches:none" : ls < 4 ? "line_searches:1-3" : "line_searches:4+"); st->label("line_searches_x_worker_counts", (size_t)(ls * 7)); }
  if (st) { st->label("ndim:" + std::to_string(p.ndim)); Hasher h; h.add(md); for (double v : p.y) h.addd(v); for (uint32_t d = 0; d < p.ndim; d++) for (double k : p.knots[d]) h.addd(k); st->nontriv(h.h); st->sample(r.json); }
  return r;
}

// the solver itself on systems that keep it busy: dense positive-definite systems with a right-hand side of mixed
// signs make coefficients that were positive turn negative after others are released - the situation in which block3
// runs its parallel line search (real fits of the size a quick tier affords rarely get there)
extern "C" cholmod_dense* nnls_normal_block3(cholmod_sparse*, cholmod_dense*, int, cholmod_common*);

CaseResult body_nnls(Chooser& ch, Stats* st) {
  CaseResult r;
  QuietStderr q;
  // a quarter of the systems are larger (100..220 unknowns) with most components positive at the optimum: there
  // modify_factor's choice between row updates of several rows and a refactorization - which divides its flop
  // estimate by the worker count - actually differs between worker counts
  bool big = gen_version() >= 2 && ch.coin(1, 4);
  int n = big ? 100 + (int)ch.draw(0, 120) : 8 + (int)ch.draw(0, 52);
  int m = n + (int)ch.draw(0, n);
  uint64_t salt = ch.draw(0, 0xffffff);
  std::vector<double> M((size_t)m * n, 0.0), A((size_t)n * n, 0.0), b(n);
  for (int i = 0; i < m; i++) for (int j = 0; j < n; j++) { uint64_t h = mix64(salt ^ mix64((uint64_t)i * 1000 + j)); if (h % 4 == 0) continue; M[(size_t)i * n + j] = (double)((int)((h >> 8) % 9) - 4) / 2.0; }
  for (int k = 0; k < m; k++) for (int i = 0; i < n; i++) { double a = M[(size_t)k * n + i]; if (a == 0) continue; for (int j = 0; j < n; j++) A[(size_t)i * n + j] += a * M[(size_t)k * n + j]; }
  for (int i = 0; i < n; i++) A[(size_t)i * n + i] += 1.0;
  // half of the systems in the cumulative (T-spline like) basis the monotonic fit works in: A := L'AL with L the
  // lower-triangular matrix of ones.  Its columns are strongly correlated, which is what sends coefficients that
  // were positive below zero once others are released
  int kind = (int)ch.draw(0, 1);
  if (kind == 1) {
    std::vector<double> T((size_t)n * n, 0.0);   // T = A L : T[i][j] = sum_{k>=j} A[i][k]
    for (int i = 0; i < n; i++) { double acc = 0; for (int j = n - 1; j >= 0; j--) { acc += A[(size_t)i * n + j]; T[(size_t)i * n + j] = acc; } }
    for (int j = 0; j < n; j++) { double acc = 0; for (int i = n - 1; i >= 0; i--) { acc += T[(size_t)i * n + j]; A[(size_t)i * n + j] = acc; } }   // L'T
  }
  for (int i = 0; i < n; i++) { uint64_t h = mix64(salt ^ mix64(777777 + (uint64_t)i)); b[i] = ((h & 1) ? 1.0 : -1.0) * (double)(1 + (h >> 4) % 64) / 8.0 * n; }
  if (kind == 1) { double acc = 0; for (int i = n - 1; i >= 0; i--) { acc += b[i]; b[i] = acc; } }   // L'b
  if (big) {  // constructed optimum with 7/8 of the components positive: b := A x0 - g0
    std::vector<double> x0(n, 0.0), g0(n, 0.0);
    for (int i = 0; i < n; i++) { uint64_t h = mix64(salt ^ mix64(424242 + (uint64_t)i)); if (h % 8 != 0) x0[i] = (double)(1 + (h >> 8) % 8) / 4.0; else g0[i] = (double)(1 + (h >> 8) % 8) / 8.0; }
    for (int i = 0; i < n; i++) { double a = 0; for (int j = 0; j < n; j++) a += A[(size_t)i * n + j] * x0[j]; b[i] = a - g0[i]; }
  }
  static const int cpus[] = {0, 0, 2, 3};
  g_usable_cpus = cpus[ch.draw(0, 3)];
  struct Reset { ~Reset() { g_usable_cpus = 0; } } reset;
  r.json = "{\"n\":" + std::to_string(n) + ",\"rows\":" + std::to_string(m) + ",\"salt\":" + std::to_string(salt) + ",\"cumulative_basis\":" + std::to_string(kind) + ",\"usable_cpus\":" + std::to_string(g_usable_cpus) + "}";
  static const int workers[] = {1, 2, 3, 5, 8, 16, 32};
  std::vector<double> first;
  long pins0 = g_pin_calls;
  for (int w : workers) {
    setenv("OMP_NUM_THREADS", std::to_string(w).c_str(), 1);
    cholmod_common c; cholmod_l_start(&c);
    cholmod_dense* Ad = cholmod_l_allocate_dense(n, n, n, CHOLMOD_REAL, &c);
    for (int i = 0; i < n; i++) for (int j = 0; j < n; j++) ((double*)Ad->x)[(size_t)j * n + i] = A[(size_t)i * n + j];
    cholmod_sparse* As = cholmod_l_dense_to_sparse(Ad, 1, &c);
    cholmod_l_free_dense(&Ad, &c);
    cholmod_dense* bd = cholmod_l_allocate_dense(n, 1, n, CHOLMOD_REAL, &c);
    for (int i = 0; i < n; i++) ((double*)bd->x)[i] = b[i];
    cholmod_dense* x = nnls_normal_block3(As, bd, 0, &c);
    std::vector<double> xs; if (x) xs.assign((double*)x->x, (double*)x->x + n);
    if (x) cholmod_l_free_dense(&x, &c);
    cholmod_l_free_sparse(&As, &c); cholmod_l_free_dense(&bd, &c);
    cholmod_l_finish(&c);
    if (xs.empty()) { r.fail = "block3 returned no solution with " + std::to_string(w) + " workers"; return r; }
    if (first.empty()) first = xs;
    else {
      double mx = 0; for (double v : first) mx = std::max(mx, std::fabs(v));
      for (int i = 0; i < n; i++) if (!(std::fabs(xs[i] - first[i]) <= 1e-9 * mx + 1e-12)) { r.fail = "block3 with " + std::to_string(w) + " workers returns component " + std::to_string(i) + " = " + jnum(xs[i]) + ", with 1 worker " + jnum(first[i]); return r; }
      if (st && memcmp(xs.data(), first.data(), (size_t)n * 8) != 0) st->label("solution:equal_within_rounding_only");
    }
    if (st) st->label("solves");
  }
  if (st) {
    long ls = (g_pin_calls - pins0) / 67; st->label(ls == 0 ? "line_searches:none" : ls < 4 ? "line_searches:1-3" : "line_searches:4+"); st->label("line_searches_x_worker_counts", (size_t)(ls * 7));
    st->label(g_usable_cpus ? "cpus:restricted" : "cpus:all"); st->label(kind ? "basis:cumulative" : "basis:plain"); if (big) st->label("size:100-220_large_free_set"); if (ls > 0) st->label(kind ? "line_searches_in:cumulative" : "line_searches_in:plain");
    Hasher h; h.add(kind); h.add(n); h.add(m); h.add(salt); h.add(g_usable_cpus); if (ls > 0) st->nontriv(h.h); st->sample(r.json);
  }
  return r;
}

// the line search itself, with real threads: walk_descents on generated problems (1..40 unknowns, 0..30 components
// that the full step would make negative => 2..32 trial step lengths) for every worker count, with and without
// failing CPU pins.  Every case runs the parallel section; TSan watches it, and the outputs must not depend on the
// worker count (the step lengths are tried in the same order whatever the block size).
CaseResult body_linesearch(Chooser& ch, Stats* st) {
  CaseResult r;
  QuietStderr q;
  int n = 1 + (int)ch.draw(0, 39);
  int nneg = (int)ch.draw(0, std::min(n, 30));
  static const double pos[] = {0.5, 1, 2, 3.5, 0.25, 7};
  static const double neg[] = {-0.5, -1, -3, -0.125, -10};
  std::vector<double> x0(n), xF0(n), A((size_t)n * n, 0.0), b(n);
  for (int i = 0; i < n; i++) { x0[i] = pos[ch.draw(0, 5)]; xF0[i] = i < nneg ? neg[ch.draw(0, 4)] : pos[ch.draw(0, 5)]; }
  uint64_t salt = ch.draw(0, 0xffffff);
  std::vector<double> M((size_t)n * n);
  for (size_t k = 0; k < M.size(); k++) M[k] = (double)((int)(mix64(salt ^ mix64(k)) % 5) - 2);
  for (int i = 0; i < n; i++) for (int j = 0; j < n; j++) { double sacc = i == j ? 1.0 : 0.0; for (int k = 0; k < n; k++) sacc += M[(size_t)k * n + i] * M[(size_t)k * n + j]; A[(size_t)i * n + j] = sacc; }
  for (int i = 0; i < n; i++) b[i] = (double)((int)(mix64(salt ^ mix64(999983 + (uint64_t)i)) % 9) - 4);
  static const int cpus[] = {0, 0, 1, 2, 5};
  g_usable_cpus = cpus[ch.draw(0, 4)];
  struct Reset { ~Reset() { g_usable_cpus = 0; } } reset;
  r.json = "{\"n\":" + std::to_string(n) + ",\"trial_steps\":" + std::to_string(2 + nneg) + ",\"usable_cpus\":" + std::to_string(g_usable_cpus) + ",\"x\":" + jarr(x0) + ",\"x_F\":" + jarr(xF0) + "}";
  static const int workers[] = {1, 2, 3, 4, 7, 16, 32, 33};
  std::string first;
  for (int w : workers) {
    setenv("OMP_NUM_THREADS", std::to_string(w).c_str(), 1);
    cholmod_common cc; cholmod_l_start(&cc);
    cholmod_dense* Ad = cholmod_l_allocate_dense(n, n, n, CHOLMOD_REAL, &cc);
    for (int i = 0; i < n; i++) for (int j = 0; j < n; j++) ((double*)Ad->x)[(size_t)j * n + i] = A[(size_t)i * n + j];
    cholmod_sparse* As = cholmod_l_dense_to_sparse(Ad, 1, &cc);
    cholmod_l_free_dense(&Ad, &cc);
    cholmod_dense* bd = cholmod_l_allocate_dense(n, 1, n, CHOLMOD_REAL, &cc);
    cholmod_dense* x = cholmod_l_allocate_dense(n, 1, n, CHOLMOD_REAL, &cc);
    cholmod_dense* xF = cholmod_l_allocate_dense(n, 1, n, CHOLMOD_REAL, &cc);
    std::vector<long> F(n), H1(n + 2, -1);
    for (int i = 0; i < n; i++) { ((double*)bd->x)[i] = b[i]; ((double*)x->x)[i] = x0[i]; ((double*)xF->x)[i] = xF0[i]; F[i] = i; }
    long nF = n, nH1 = 0; double residual = 1e300; int calcs = 0;
    int feasible = walk_descents(As, bd, x, xF, F.data(), &nF, H1.data(), &nH1, &residual, &calcs, 0, &cc);
    std::ostringstream o; o << feasible << " " << nH1;
    for (long i = 0; i < nH1; i++) o << " h" << H1[i];
    char buf[64];
    for (int i = 0; i < n; i++) { snprintf(buf, sizeof buf, " %a", ((double*)x->x)[i]); o << buf; }
    snprintf(buf, sizeof buf, " r%a", residual); o << buf;
    cholmod_l_free_sparse(&As, &cc); cholmod_l_free_dense(&bd, &cc); cholmod_l_free_dense(&x, &cc);
    // walk_descents consumes x_F
    cholmod_l_finish(&cc);
    if (first.empty()) first = o.str();
    else if (o.str() != first) { r.fail = "walk_descents with " + std::to_string(w) + " workers returns " + o.str().substr(0, 200) + ", with 1 worker " + first.substr(0, 200); return r; }
    if (st) st->label("line_searches");
  }
  if (st) {
    st->label(g_usable_cpus ? "cpus:restricted" : "cpus:all"); st->label("trial_steps:" + std::string(2 + nneg <= 3 ? "2-3" : 2 + nneg <= 8 ? "4-8" : 2 + nneg <= 16 ? "9-16" : "17+"));
    Hasher h; h.add(n); h.add(nneg); h.add(salt); h.add(g_usable_cpus); for (double v : x0) h.addd(v); for (double v : xF0) h.addd(v); st->nontriv(h.h); st->sample(r.json);
  }
  return r;
}

}  // namespace

int main(int argc, char** argv) {
  Options o = parse_options(argc, argv);
  Prop a{"tsan_fits", body, 1.0}, b{"tsan_nnls", body_nnls, 1.0}, c{"tsan_linesearch", body_linesearch, 2.0, 1 /* isolated: a line search that never returns is a failing case, not a stuck worker */, 1024, 20};
  return run_main(o, "C12", {c, a, b});  // the forked (isolated) line-search cases first, before the other sub-properties have run threads in this process
}
