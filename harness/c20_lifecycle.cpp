// C20 — a table object stays valid and leak-free across any history, even failed calls.
// Stateful model-based test over 1..3 splinetable<CheckedAlloc> objects with an abstract model of
// each object (empty | structure + coefficient snapshot + ordered aux list), a checking allocator
// ledger (every block returned exactly once, no foreign/double frees) and FAULT ENUMERATION: each
// history is re-run with std::bad_alloc thrown at allocation k for every k (all positions up to 300).
#include <cfloat>
#include <numeric>
#include "common/vf_rc.hpp"
#include "common/libtable.hpp"
#include "common/alloc.hpp"
#include "common/fitgen.hpp"
#include "common/fitsmut.hpp"
#include <sys/stat.h>

using namespace vf;

namespace {

typedef photospline::splinetable<CheckedAlloc<void>> CTable;

enum Kind { READ_MEM_GOOD, READ_MEM_BAD, READ_DISK_GOOD, READ_DISK_BAD, CONSTRUCT_GOOD, CONSTRUCT_MISSING, CONSTRUCT_BAD, FIT_VALID, FIT_INVALID, WRITE_KEY, WRITE_KEY_BAD, REMOVE_KEY,
            CONVOLVE, PERMUTE, PERMUTE_BAD, MOVE_CONSTRUCT, MOVE_ASSIGN, COMPARE, WRITE_MEM, WRITE_DISK, WRITE_DISK_BAD, USE, DESTROY, NKINDS };
static const char* kKindNames[] = {"read_mem_good", "read_mem_bad", "read_disk_good", "read_disk_bad", "construct_good", "construct_missing", "construct_bad", "fit_valid", "fit_invalid", "write_key",
                                   "write_key_bad", "remove_key", "convolve", "permute", "permute_bad", "move_construct", "move_assign", "compare", "write_mem", "write_disk", "write_disk_bad", "use", "destroy"};

struct Op { Kind kind; int a, b; uint64_t salt; int file; int fitp; };  // file: index into History::files, fitp: index into fit problems

struct Model {
  bool empty = true;
  std::vector<uint32_t> order; std::vector<std::vector<double>> knots; std::vector<double> elo, ehi, period; std::vector<float> coeff;
  std::vector<std::pair<std::string, std::string>> aux;
  bool same_table(const Model& o) const { if (empty || o.empty) return empty && o.empty; return order == o.order && knots == o.knots && coeff.size() == o.coeff.size() && memcmp(coeff.data(), o.coeff.data(), coeff.size() * 4) == 0; }
};

struct History {
  int nobj;
  std::vector<Op> ops;
  std::vector<TableSpec> specs; std::vector<std::vector<unsigned char>> good_files, bad_files; std::vector<FitProblem> fits;
  std::string dir;
};

std::string rtrim(std::string s) { while (!s.empty() && s.back() == ' ') s.pop_back(); return s; }

Model model_from_spec(const TableSpec& s) {
  Model m; m.empty = false;
  for (auto& d : s.dims) { m.order.push_back(d.order); m.knots.push_back(d.knots); m.elo.push_back(d.ext_lo); m.ehi.push_back(d.ext_hi); m.period.push_back(d.period); }
  m.coeff = s.coeff; m.aux = s.aux;
  return m;
}

// learn what cannot be predicted (coefficients after fit/convolve, extents after convolve)
void learn(Model& m, const CTable& t) {
  m.coeff.assign(t.get_coefficients(), t.get_coefficients() + t.get_ncoeffs());
  for (uint32_t d = 0; d < t.get_ndim(); d++) { m.elo[d] = t.lower_extent(d); m.ehi[d] = t.upper_extent(d); }
}

std::string check_obj(const CTable& t, const Model& m, const char* when) {
  std::string W = std::string(" (") + when + ")";
  if (m.empty) {
    if (t.get_ndim() != 0) return "object should be empty but has ndim " + std::to_string(t.get_ndim()) + W;
  } else {
    if (t.get_ndim() != m.order.size()) return "ndim " + std::to_string(t.get_ndim()) + " != model " + std::to_string(m.order.size()) + W;
    uint64_t acc = 1;
    for (uint32_t d = (uint32_t)m.order.size(); d-- > 0;) {
      if (t.get_order(d) != m.order[d]) return "order differs from the model" + W;
      if (t.get_nknots(d) != m.knots[d].size()) return "knot count differs from the model" + W;
      for (size_t i = 0; i < m.knots[d].size(); i++) if (!same_bits(t.get_knot(d, i), m.knots[d][i])) return "knots differ from the model" + W;
      if (t.get_ncoeffs(d) != m.knots[d].size() - m.order[d] - 1) return "coefficient count differs from the model" + W;
      if (t.get_stride(d) != acc) return "stride differs from the model" + W;
      acc *= t.get_ncoeffs(d);
      if (!same_bits(t.lower_extent(d), m.elo[d]) || !same_bits(t.upper_extent(d), m.ehi[d])) return "extents differ from the model" + W;
      if (!same_bits(t.get_period(d), m.period[d])) return "period differs from the model" + W;
    }
    if (t.get_ncoeffs() != m.coeff.size() || memcmp(t.get_coefficients(), m.coeff.data(), m.coeff.size() * 4) != 0) return "coefficients differ from the model" + W;
  }
  if (t.get_naux_values() != m.aux.size()) return "aux count " + std::to_string(t.get_naux_values()) + " != model " + std::to_string(m.aux.size()) + W;
  for (size_t i = 0; i < m.aux.size(); i++) {
    if (m.aux[i].first != t.get_aux_key(i)) return "aux key order differs from the model" + W;
    const char* v = t.get_aux_value(m.aux[i].first.c_str());
    if (!v || rtrim(v) != rtrim(m.aux[i].second)) return "aux value differs from the model" + W;
  }
  return "";
}

bool is_empty_state(const CTable& t) { return t.get_ndim() == 0 && t.get_naux_values() == 0; }

static const char* kGoodKeys[] = {"A", "KEY1", "LEVEL", "LONGKEYNAME1", "A LONG KEY"};
static const char* kBadKeys[] = {"ORDER0", "NAXIS", "abc", "TYPE", "A=B"};

// runs the history; fail_at > 0 injects bad_alloc at that allocation.  Returns "" or the violation.
std::string run_history(const History& H, long fail_at, Stats* st, size_t* nallocs, bool* injected) {
  Ledger L; L.fail_at = fail_at;
  std::string fail;
  {
    std::vector<std::unique_ptr<CTable>> obj(H.nobj);
    std::vector<Model> mod(H.nobj);
    auto fresh = [&]() { return std::unique_ptr<CTable>(new CTable{CheckedAlloc<void>(&L)}); };
    for (auto& o : obj) o = fresh();
    bool failed_op_then_used = false; std::vector<char> had_failure(H.nobj, 0);
    int opi = 0;
    for (const Op& op : H.ops) {
      opi++;
      CTable& A = *obj[op.a]; Model& MA = mod[op.a];
      bool threw = false, was_injected = false; std::string what;
      bool before_failed = L.failed;
      Model prevA = MA, prevB = mod[op.b];
      // expectation: 0 must succeed, 1 must throw, 2 either
      int expect = 0;
      Model nextA = MA;
      try {
        switch (op.kind) {
          case READ_MEM_GOOD: case READ_DISK_GOOD: {
            expect = MA.empty ? 0 : 1;
            if (MA.empty) nextA = model_from_spec(H.specs[op.file]);
            if (op.kind == READ_MEM_GOOD) { std::vector<unsigned char> b = H.good_files[op.file]; A.read_fits_mem(b.data(), b.size()); }
            else A.read_fits(H.dir + "/good" + std::to_string(op.file) + ".fits");
            break; }
          case READ_MEM_BAD: case READ_DISK_BAD: {
            expect = MA.empty ? 2 : 1;   // a damaged file may still be a valid table
            if (op.kind == READ_MEM_BAD) { std::vector<unsigned char> b = H.bad_files[op.file]; A.read_fits_mem(b.data(), b.size()); }
            else A.read_fits(H.dir + "/bad" + std::to_string(op.file) + ".fits");
            break; }
          case CONSTRUCT_GOOD: case CONSTRUCT_MISSING: case CONSTRUCT_BAD: {
            obj[op.a].reset(); MA = Model(); nextA = Model();
            std::string p = op.kind == CONSTRUCT_GOOD ? H.dir + "/good" + std::to_string(op.file) + ".fits" : op.kind == CONSTRUCT_MISSING ? H.dir + "/does_not_exist.fits" : H.dir + "/bad" + std::to_string(op.file) + ".fits";
            expect = op.kind == CONSTRUCT_GOOD ? 0 : op.kind == CONSTRUCT_MISSING ? 1 : 2;
            if (op.kind == CONSTRUCT_GOOD) nextA = model_from_spec(H.specs[op.file]);
            try { obj[op.a].reset(new CTable{p, CheckedAlloc<void>(&L)}); } catch (...) { obj[op.a] = fresh(); throw; }
            break; }
          case FIT_VALID: case FIT_INVALID: {
            const FitProblem& p = H.fits[op.fitp];
            expect = (!MA.empty || op.kind == FIT_INVALID) ? 1 : 0;
            if (expect == 0) { nextA = Model(); nextA.empty = false; nextA.order = p.order; nextA.knots = p.knots; for (uint32_t d = 0; d < p.ndim; d++) { nextA.elo.push_back(p.knots[d][p.order[d]]); nextA.ehi.push_back(p.knots[d][p.knots[d].size() - p.order[d] - 1]); nextA.period.push_back(0); } nextA.aux = MA.aux; }
            if (op.kind == FIT_INVALID) {
              FitProblem q = p; int w = (int)(op.salt % (gen_version() >= 2 ? 5 : 3)); uint32_t md = CTable::no_monodim;
              if (w == 0) q.w.push_back(1.0); else if (w == 1) q.knots[0].resize(q.order[0] + 1); else if (w == 2) std::reverse(q.knots[0].begin(), q.knots[0].end());
              else if (w == 3) md = q.ndim + (uint32_t)((op.salt >> 8) % 3);   // a monotonic dimension that does not exist: the only invalid argument
              else q.porder[0] = q.order[0] + 1 + (uint32_t)((op.salt >> 8) % 2);  // penalty order above the spline order
              run_fit(A, q, md);
            }
            else run_fit(A, p, CTable::no_monodim);
            break; }
          case WRITE_KEY: case WRITE_KEY_BAD: {
            std::string key = op.kind == WRITE_KEY ? kGoodKeys[op.salt % 5] : kBadKeys[op.salt % 5];
            std::string val = (op.salt >> 8) % 3 == 0 ? std::to_string((int)(op.salt >> 16) % 1000) : "value " + std::to_string((op.salt >> 16) % 97);
            expect = op.kind == WRITE_KEY ? 0 : 1;
            if (expect == 0) { bool f = false; for (auto& kv : nextA.aux) if (kv.first == key) { kv.second = val; f = true; } if (!f) nextA.aux.push_back({key, val}); }
            A.write_key(key.c_str(), val);
            break; }
          case REMOVE_KEY: {
            std::string key = MA.aux.empty() || op.salt % 4 == 0 ? "NOSUCHKEY" : MA.aux[(op.salt >> 4) % MA.aux.size()].first;
            for (size_t i = 0; i < nextA.aux.size(); i++) if (nextA.aux[i].first == key) { nextA.aux.erase(nextA.aux.begin() + (long)i); break; }
            bool res = A.remove_key(key.c_str());
            if (res != (nextA.aux.size() != MA.aux.size())) fail = "remove_key returned the wrong flag";
            break; }
          case CONVOLVE: {
            if (MA.empty) { expect = 2; break; }  // outside the operation's precondition: not called
            uint32_t dim = (uint32_t)(op.salt % MA.order.size()); double sp = MA.knots[dim][1] - MA.knots[dim][0]; if (!(sp > 0)) sp = 1;
            double y[3] = {-0.25 * sp, 0.125 * sp, 0.5 * sp}; size_t n = 2 + (op.salt >> 8) % 2;
            if (MA.order[dim] + n - 1 > 8) { expect = 2; break; }
            std::vector<double> rho; for (double k : MA.knots[dim]) for (size_t j = 0; j < n; j++) rho.push_back(k + y[j]); std::sort(rho.begin(), rho.end());
            nextA.order[dim] += (uint32_t)n - 1; nextA.knots[dim] = rho;
            A.convolve(dim, y, n);
            learn(nextA, A);
            break; }
          case PERMUTE: case PERMUTE_BAD: {
            if (MA.empty) { expect = 2; break; }
            size_t nd = MA.order.size(); std::vector<size_t> p(nd); std::iota(p.begin(), p.end(), 0);
            for (size_t i = nd - 1; i > 0; i--) std::swap(p[i], p[(size_t)(mix64(op.salt + i) % (i + 1))]);
            if (op.kind == PERMUTE_BAD) { expect = 1; int w = (int)(op.salt % 3); if (w == 0) p.push_back(nd); else if (w == 1) p[0] = nd + 3; else if (nd >= 2) p[0] = p[1]; else p.clear(); }
            else {
              Model q = MA;
              std::vector<uint64_t> os(nd), ns(nd); { uint64_t a = 1; for (size_t d = nd; d-- > 0;) { os[d] = a; a *= MA.knots[d].size() - MA.order[d] - 1; } }
              for (size_t i = 0; i < nd; i++) { q.order[i] = MA.order[p[i]]; q.knots[i] = MA.knots[p[i]]; q.elo[i] = MA.elo[p[i]]; q.ehi[i] = MA.ehi[p[i]]; q.period[i] = MA.period[p[i]]; }
              { uint64_t a = 1; for (size_t d = nd; d-- > 0;) { ns[d] = a; a *= q.knots[d].size() - q.order[d] - 1; } }
              for (uint64_t pos = 0; pos < MA.coeff.size(); pos++) { uint64_t r = pos, np = 0; std::vector<uint64_t> I(nd); for (size_t d = 0; d < nd; d++) { I[d] = r / os[d]; r %= os[d]; } for (size_t i = 0; i < nd; i++) np += I[p[i]] * ns[i]; q.coeff[np] = MA.coeff[pos]; }
              nextA = q;
            }
            A.permuteDimensions(p);
            break; }
          case MOVE_CONSTRUCT: {
            if (op.a == op.b) { expect = 2; break; }
            std::unique_ptr<CTable> n(new CTable(std::move(A)));
            obj[op.b] = std::move(n);
            mod[op.b] = MA; nextA = Model();
            break; }
          case MOVE_ASSIGN: {
            CTable& B = *obj[op.b];
            B = std::move(A);
            if (op.a != op.b) { mod[op.b] = MA; nextA = Model(); }
            break; }
          case COMPARE: {
            const CTable& B = *obj[op.b];
            bool eq = A == B, ne = A != B;
            if (eq == ne) fail = "operator== and operator!= agree";
            else if ([&]() { for (float c : MA.coeff) if (std::isnan(c)) return true; for (float c : mod[op.b].coeff) if (std::isnan(c)) return true; return false; }()) { /* NaN coefficients (from a damaged file that still loads) never compare equal */ }
            else if (eq != MA.same_table(mod[op.b])) fail = std::string("comparison says ") + (eq ? "equal" : "different") + ", the model says otherwise";
            break; }
          case WRITE_MEM: { expect = MA.empty ? 1 : 0; auto buf = A.write_fits_mem(); free(buf.first); break; }
          case WRITE_DISK: { expect = MA.empty ? 1 : 0; std::string p = H.dir + "/out.fits"; A.write_fits(p); unlink(p.c_str()); break; }
          case WRITE_DISK_BAD: { expect = 1; A.write_fits(H.dir + "/no_such_dir/out.fits"); break; }
          case USE: {
            if (MA.empty) { (void)A.get_naux_values(); break; }
            size_t nd = MA.order.size(); std::vector<double> x(nd); std::vector<int> c(nd);
            for (size_t d = 0; d < nd; d++) x[d] = 0.5 * (MA.knots[d][MA.order[d]] + MA.knots[d][MA.knots[d].size() - MA.order[d] - 1]);
            if (A.searchcenters(x.data(), c.data())) { volatile double v = A.ndsplineeval(x.data(), c.data(), 0); (void)v; }
            break; }
          case DESTROY: { obj[op.a] = fresh(); nextA = Model(); break; }
          default: break;
        }
      } catch (std::exception& e) { threw = true; what = e.what(); }
      catch (...) { fail = "operation threw something that is not a std::exception"; }
      was_injected = !before_failed && L.failed;
      if (injected && was_injected) *injected = true;
      CTable& A2 = *obj[op.a];
      if (fail.empty()) {
        std::string ctx = std::string("op #") + std::to_string(opi) + " " + kKindNames[op.kind] + (was_injected ? " [allocation failure injected]" : "");
        if (!threw) {
          if (expect == 1 && !was_injected) fail = ctx + ": succeeded but must be refused";
          else {
            if (expect == 2 && (op.kind == READ_MEM_BAD || op.kind == READ_DISK_BAD || op.kind == CONSTRUCT_BAD)) {
              // a damaged file that still loads: adopt whatever table it is (well-formedness is C07's business)
              nextA = Model(); nextA.empty = A2.get_ndim() == 0;
              if (!nextA.empty) { for (uint32_t d = 0; d < A2.get_ndim(); d++) { nextA.order.push_back(A2.get_order(d)); nextA.knots.emplace_back(A2.get_knots(d), A2.get_knots(d) + A2.get_nknots(d)); nextA.elo.push_back(0); nextA.ehi.push_back(0); nextA.period.push_back(A2.get_period(d)); } learn(nextA, A2); }
              for (size_t i = 0; i < A2.get_naux_values(); i++) nextA.aux.push_back({A2.get_aux_key(i), A2.get_aux_value(A2.get_aux_key(i))});
            }
            if (op.kind == FIT_VALID && expect == 0) learn(nextA, A2);
            MA = nextA;
          }
        } else {
          if (expect == 0 && !was_injected) fail = ctx + ": threw on valid input: " + what;
          else {
            // a failed operation leaves the object unchanged or empty
            had_failure[op.a] = 1;
            if (op.kind == CONSTRUCT_GOOD || op.kind == CONSTRUCT_MISSING || op.kind == CONSTRUCT_BAD) MA = Model();
            else if (is_empty_state(A2) && !(prevA.empty && prevA.aux.empty())) { MA = Model(); if (st) st->label("failed_op_left_object_empty"); }
            else MA = prevA;
            if (op.kind == MOVE_CONSTRUCT || op.kind == MOVE_ASSIGN) mod[op.b] = prevB;
          }
        }
        if (fail.empty()) {
          for (int i = 0; i < H.nobj && fail.empty(); i++) { std::string e = check_obj(*obj[i], mod[i], (ctx + ", object " + std::to_string(i)).c_str()); if (!e.empty()) fail = e; }
        }
        if (fail.empty() && !L.errors.empty()) fail = ctx + ": allocator ledger: " + L.errors[0];
        if (!threw && had_failure[op.a] && op.kind != DESTROY) failed_op_then_used = true;
      }
      if (!fail.empty()) break;
      if (st && fail_at <= 0) st->label(std::string("op:") + kKindNames[op.kind]);
    }
    if (st && fail_at <= 0 && failed_op_then_used) st->label("history:failure_then_further_use");
    if (!fail.empty()) { for (auto& o : obj) o.release(); }  // do not run destructors on objects in an unknown state
  }
  if (fail.empty() && !L.errors.empty()) fail = "allocator ledger at destruction: " + L.errors[0];
  if (fail.empty() && !L.live.empty()) fail = std::to_string(L.live.size()) + " blocks (" + std::to_string(L.cur) + " bytes) obtained from the allocator were never returned";
  if (st && fail_at <= 0) { if (L.size_mismatches) st->label("deallocate_size_mismatch", L.size_mismatches); if (L.null_deallocs) st->label("deallocate_nullptr", L.null_deallocs); }
  if (nallocs) *nallocs = L.nalloc;
  L.release_all();
  return fail;
}

CaseResult body(Chooser& ch, Stats* st) {
  CaseResult r;
  QuietStderr q;
  History H;
  H.nobj = 1 + (int)ch.draw(0, 2);
  static int serial = 0;
  mkdir("/verif/build/tmp", 0777);
  H.dir = "/verif/build/tmp/c20-" + std::to_string(getpid()) + "-" + std::to_string(serial++);
  mkdir(H.dir.c_str(), 0777);
  int nfiles = 2;
  for (int i = 0; i < nfiles; i++) {
    SpecOpts so; so.max_ndim = 3; so.max_order = 3; so.max_coeffs = 120; so.max_terms = 64; so.ko.strictly_increasing = true; so.ko.extra_max = 3; so.distinct_axes = true;
    TableSpec s = gen_spec(ch, so);
    int k = 1; for (auto& d : s.dims) d.period = 1.5 * k++;
    if (ch.coin(1, 2)) s.aux.push_back({"FILEKEY", "from file " + std::to_string(i)});
    H.specs.push_back(s); H.good_files.push_back(spec_to_fits(s));
    MutLog log; H.bad_files.push_back(gen_mutated_file(ch, log));
    FILE* f = fopen((H.dir + "/good" + std::to_string(i) + ".fits").c_str(), "wb"); if (f) { fwrite(H.good_files[i].data(), 1, H.good_files[i].size(), f); fclose(f); }
    f = fopen((H.dir + "/bad" + std::to_string(i) + ".fits").c_str(), "wb"); if (f) { fwrite(H.bad_files[i].data(), 1, H.bad_files[i].size(), f); fclose(f); }
  }
  { FitGenOpts fo; fo.max_ndim = 2; fo.max_order = 2; fo.max_coeff = 20; fo.max_rows = 150; fo.allow_sparse = false; fo.smoothing_zero_ok = false; H.fits.push_back(gen_fit_problem(ch, fo)); H.fits[0].single_smooth = H.fits[0].single_porder = false; }
  int nops = 3 + (int)ch.draw(0, 22);
  std::ostringstream js; js << "{\"objects\":" << H.nobj << ",\"ops\":[";
  Hasher hh;
  for (int i = 0; i < nops; i++) {
    Op op; op.kind = (Kind)ch.draw(0, NKINDS - 1); op.a = (int)ch.draw(0, H.nobj - 1); op.b = (int)ch.draw(0, H.nobj - 1); op.salt = ch.draw(0, 0xffffff); op.file = (int)ch.draw(0, nfiles - 1); op.fitp = 0;
    H.ops.push_back(op);
    js << (i ? "," : "") << "\"" << kKindNames[op.kind] << "(" << op.a << (op.kind == MOVE_CONSTRUCT || op.kind == MOVE_ASSIGN || op.kind == COMPARE ? "," + std::to_string(op.b) : "") << ")\"";
    hh.add(op.kind); hh.add(op.a); hh.add(op.b); hh.add(op.salt);
  }
  js << "]";
  size_t nalloc = 0;
  std::string e = run_history(H, -1, st, &nalloc, nullptr);
  long positions = 0, reached = 0;
  if (e.empty()) {
    // fault enumeration: bad_alloc at every allocation position (all for N <= 300, else 300 spread evenly incl. first and last)
    std::vector<long> ks;
    if (nalloc <= 300) for (size_t k = 1; k <= nalloc; k++) ks.push_back((long)k);
    else for (int i = 0; i < 300; i++) ks.push_back(1 + (long)((double)i * (double)(nalloc - 1) / 299.0));
    for (long k : ks) {
      bool inj = false;
      std::string f = run_history(H, k, nullptr, nullptr, &inj);
      positions++; if (inj) reached++;
      if (st && inj) { Hasher h2 = hh; h2.add((uint64_t)k); st->nontriv(h2.h); }
      if (!f.empty()) { e = "with allocation #" + std::to_string(k) + " of " + std::to_string(nalloc) + " failing: " + f; break; }
    }
  }
  js << ",\"allocations\":" << nalloc << ",\"injection_positions\":" << positions << "}";
  r.json = js.str();
  if (st) { st->label("ops", (uint64_t)nops); st->label("injection_positions", (uint64_t)positions); st->label("injections_reached", (uint64_t)reached); st->sample(r.json); }
  // clean the scratch directory
  for (int i = 0; i < nfiles; i++) { unlink((H.dir + "/good" + std::to_string(i) + ".fits").c_str()); unlink((H.dir + "/bad" + std::to_string(i) + ".fits").c_str()); }
  unlink((H.dir + "/out.fits").c_str()); rmdir(H.dir.c_str());
  r.fail = e;
  return r;
}

}  // namespace

int main(int argc, char** argv) {
  Options o = parse_options(argc, argv);
  Prop a{"lifecycle", body, 1.0, 1, 4096, 300};
  return run_main(o, "C20", {a});
}
