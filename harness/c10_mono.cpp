// C10 — a monotonic fit is non-decreasing along the requested dimension for any data.
// Oracle: (1) coefficients non-decreasing along monodim, compared exactly in float, for every
// fibre; (2) the derivative along monodim evaluated in the fully supported region is >= -tol;
// (3) inactive constraint: when the unconstrained reference solution is non-negative and
// non-decreasing with margin, the monotonic fit equals it to single precision.
// Fork-isolated with a watchdog (the NNLS solve spawns threads and must terminate).
#include <cfloat>
#include "common/vf_rc.hpp"
#include "common/fitgen.hpp"

using namespace vf;

namespace {

std::string check_monotone(const Table& t, const FitProblem& p, uint32_t md) {
  auto nf = p.nfun();
  size_t stride = 1; for (uint32_t d = md + 1; d < p.ndim; d++) stride *= nf[d];
  size_t outer = 1; for (uint32_t d = 0; d < md; d++) outer *= nf[d];
  const float* c = t.get_coefficients();
  for (size_t o = 0; o < outer; o++) for (size_t in = 0; in < stride; in++) for (size_t j = 1; j < nf[md]; j++) {
    float a = c[o * nf[md] * stride + (j - 1) * stride + in], b = c[o * nf[md] * stride + j * stride + in];
    if (!(b >= a)) return "coefficients decrease along the monotonic dimension: c[" + std::to_string(j - 1) + "]=" + jnum(a) + " > c[" + std::to_string(j) + "]=" + jnum(b) + " (fibre " + std::to_string(o) + "," + std::to_string(in) + ")";
  }
  return "";
}

// drop every data row beyond a cut along the monotonic dimension, so that the last few (>= 3) basis functions of that
// dimension have no data under them: such coefficients enter the fit one at a time, late, through single-row updates
// of the factorization (returns the number of coefficients along md left without data)
int truncate_along(FitProblem& p, uint32_t md, int gap) {
  auto nf = p.nfun();
  if ((int)nf[md] < gap + 2) return 0;
  double cut = p.knots[md][nf[md] - gap];   // basis functions nf-gap .. nf-1 are supported on [knot[nf-gap], ...)
  std::vector<size_t> keep;
  for (size_t r = 0; r < p.nrows(); r++) if (p.coords[md][p.idx[md][r]] < cut) keep.push_back(r);
  if (keep.size() < 2 || keep.size() == p.nrows()) return 0;
  std::vector<double> y, w; std::vector<std::vector<unsigned>> idx(p.ndim);
  for (size_t r : keep) { y.push_back(p.y[r]); w.push_back(p.w[r]); for (uint32_t d = 0; d < p.ndim; d++) idx[d].push_back(p.idx[d][r]); }
  p.y.swap(y); p.w.swap(w); p.idx.swap(idx);
  return gap;
}

CaseResult body_any(Chooser& ch, Stats* st) {
  CaseResult r;
  QuietStderr q;
  FitGenOpts fo; fo.max_ndim = 3; fo.min_order = 1; fo.max_order = 4; fo.max_coeff = 120; fo.max_rows = 1500;
  FitProblem p = gen_fit_problem(ch, fo);
  uint32_t md = (uint32_t)ch.draw(0, p.ndim - 1);
  // data of any magnitude: the solver's tolerances are absolute, so small data sit inside them
  static const double scales[] = {1, 1, 1e-7, 1e-9, 1e-12, 1e4};
  double scale = gen_version() >= 2 ? scales[ch.draw(0, 5)] : 1.0;
  for (double& v : p.y) v *= scale;
  int gap = 0;
  if (gen_version() >= 2 && ch.coin(1, 4)) { gap = truncate_along(p, md, 3 + (int)ch.draw(0, 2)); if (gap) { for (uint32_t d = 0; d < p.ndim; d++) if (p.smooth[d] == 0) p.smooth[d] = 1e-3; p.porder[md] = std::min<uint32_t>(2, p.order[md]); p.single_smooth = p.single_porder = false; } }
  r.json = "{\"monodim\":" + std::to_string(md) + ",\"data_scale\":" + jnum(scale) + ",\"coefficients_without_data\":" + std::to_string(gap) + ",\"problem\":" + p.json() + "}";
  DenseSys S = assemble_reference(p);
  std::vector<LD> L;
  if (!cholesky_ld(S.A, S.n, L)) { r.discard = true; if (st) st->label("discard:not_positive_definite"); return r; }
  LD cond = cond_estimate(S.A, L, S.n);
  if (!(cond < 1e6L)) { r.discard = true; if (st) st->label("discard:ill_conditioned"); return r; }
  // is the constraint active? (does the unconstrained reference violate it)
  std::vector<LD> cref = chol_solve(L, S.n, S.r);
  auto nf = p.nfun();
  size_t stride = 1; for (uint32_t d = md + 1; d < p.ndim; d++) stride *= nf[d];
  bool active = false;
  for (size_t i = 0; i < S.n; i++) { size_t j = (i / stride) % nf[md]; if (j == 0 ? cref[i] < 0 : cref[i] < cref[i - stride]) active = true; }
  Table t;
  try { run_fit(t, p, md); } catch (std::exception& e) { r.fail = std::string("monotonic fit threw on a well-posed problem: ") + e.what(); return r; }
  if (st) {
    st->label("ndim:" + std::to_string(p.ndim)); st->label("monodim:" + std::to_string(md)); st->label(active ? "constraint:active" : "constraint:inactive");
    st->label("data:" + p.data_class.substr(0, p.data_class.find('+'))); if (p.data_class.find("sparse") != std::string::npos) st->label("sparse");
    if (md != 0 && md != p.ndim - 1) st->label("monodim:interior");
    st->label("data_scale:" + jnum(scale)); if (gap) st->label("trailing_coefficients_without_data");
    if (active) { Hasher h; h.add(md); for (uint32_t d = 0; d < p.ndim; d++) { h.add(p.order[d]); for (double k : p.knots[d]) h.addd(k); } for (double v : p.y) h.addd(v); for (double v : p.w) h.addd(v); st->nontriv(h.h); }
    st->sample(r.json);
  }
  std::string e = check_monotone(t, p, md);
  if (!e.empty()) { r.fail = e; return r; }
  // derivative along monodim at points of the fully supported region
  for (int k = 0; k < 16; k++) {
    std::vector<double> x(p.ndim); std::vector<int> c(p.ndim);
    for (uint32_t d = 0; d < p.ndim; d++) { double lo = p.knots[d][p.order[d]], hi = p.knots[d][p.knots[d].size() - p.order[d] - 1]; x[d] = lo + (hi - lo) * (double)(1 + ch.draw(0, 62)) / 64.0; }
    if (!t.searchcenters(x.data(), c.data())) continue;
    double dv = t.ndsplineeval<double>(x.data(), c.data(), 1 << md);
    // magnitude of the terms: sum |c| |N'|  <= max|c| * 2*order/min knot spacing; a generous float-rounding floor
    float maxc = 0; for (uint64_t i = 0; i < t.get_ncoeffs(); i++) maxc = std::max(maxc, fabsf(t.get_coefficients()[i]));
    double minsp = 1e300; for (size_t i = 1; i < p.knots[md].size(); i++) minsp = std::min(minsp, p.knots[md][i] - p.knots[md][i - 1]);
    double tol = 64.0 * DBL_EPSILON * maxc * 2 * p.order[md] / minsp * S.n;
    if (!(dv >= -tol)) { r.fail = "derivative along the monotonic dimension is negative (" + jnum(dv) + ") at " + jarr(x); return r; }
  }
  return r;
}

// inactive constraint: data generated by a spline with positive, increasing coefficients
CaseResult body_inactive(Chooser& ch, Stats* st) {
  CaseResult r;
  QuietStderr q;
  FitGenOpts fo; fo.max_ndim = 3; fo.min_order = 1; fo.max_order = 4; fo.max_coeff = 100; fo.max_rows = 1500; fo.allow_sparse = false; fo.allow_zero_weights = false;
  FitProblem p = gen_fit_problem(ch, fo);
  for (auto& s : p.smooth) s = 0;
  uint32_t md = (uint32_t)ch.draw(0, p.ndim - 1);
  auto nf = p.nfun(); size_t n = p.ncoeff();
  std::vector<size_t> stride(p.ndim); { size_t a = 1; for (uint32_t d = p.ndim; d-- > 0;) { stride[d] = a; a *= nf[d]; } }
  std::vector<LD> ctrue(n);
  uint64_t salt = ch.draw(0, 0xffff);
  for (size_t i = 0; i < n; i++) { size_t j = (i / stride[md]) % nf[md]; size_t fibre = i - j * stride[md]; ctrue[i] = 0.5L + (LD)(mix64(salt ^ mix64(fibre)) % 8) / 4.0L + (LD)j * (0.25L + (LD)(mix64(salt ^ mix64(fibre * 31 + 7)) % 4) / 4.0L); }
  for (size_t row = 0; row < p.nrows(); row++) {
    std::vector<std::pair<size_t, LD>> ent{{0, 1.0L}};
    for (uint32_t d = 0; d < p.ndim; d++) { std::vector<std::pair<size_t, LD>> nx; for (auto& e : ent) for (size_t i = 0; i < nf[d]; i++) { LD b = fit_basis(p.knots[d], (int)i, (int)p.order[d], p.coords[d][p.idx[d][row]]); if (b != 0) nx.push_back({e.first + i * stride[d], e.second * b}); } ent.swap(nx); }
    LD v = 0; for (auto& e : ent) v += ctrue[e.first] * e.second;
    p.y[row] = (double)v;
  }
  p.data_class = "monotone_spline_on_same_knots";
  r.json = "{\"monodim\":" + std::to_string(md) + ",\"problem\":" + p.json() + "}";
  DenseSys S = assemble_reference(p);
  std::vector<LD> L;
  if (!cholesky_ld(S.A, S.n, L)) { r.discard = true; return r; }
  LD cond = cond_estimate(S.A, L, S.n);
  if (!(cond < 1e4L)) { r.discard = true; if (st) st->label("discard:ill_conditioned"); return r; }
  Table t;
  try { run_fit(t, p, md); } catch (std::exception& e) { r.fail = std::string("monotonic fit threw: ") + e.what(); return r; }
  if (st) { st->label("ndim:" + std::to_string(p.ndim)); st->label("monodim:" + std::to_string(md)); st->label("constraint:inactive"); Hasher h; h.add(md); for (double v : p.y) h.addd(v); for (uint32_t d = 0; d < p.ndim; d++) for (double k : p.knots[d]) h.addd(k); st->nontriv(h.h); st->sample(r.json); }
  std::string e = check_monotone(t, p, md);
  if (!e.empty()) { r.fail = e; return r; }
  LD nrm = 0; for (LD v : ctrue) nrm = std::max(nrm, fabsl(v));
  for (size_t i = 0; i < n; i++) {
    LD d = fabsl((LD)t.get_coefficients()[i] - ctrue[i]);
    LD tol = 64 * cond * FLT_EPSILON * nrm + 1e-5L;   // block3 stops at its own tolerance n*eps*1e5 on the multipliers
    if (!(d <= tol)) { r.fail = "inactive constraint: monotonic fit coefficient " + std::to_string(i) + " = " + jnum(t.get_coefficients()[i]) + " differs from the unconstrained solution " + jnum((double)ctrue[i]) + " (cond " + jnum((double)cond) + ")"; return r; }
  }
  return r;
}

// inactive constraint with smoothing: the unconstrained minimiser of the SAME penalised objective (dense long-double
// reference) is non-negative and non-decreasing along the monotonic dimension with a margin, so the constraint is
// inactive and the monotonic fit has to return it
CaseResult body_inactive_smoothed(Chooser& ch, Stats* st) {
  CaseResult r;
  QuietStderr q;
  FitGenOpts fo; fo.max_ndim = 3; fo.min_order = 1; fo.max_order = 4; fo.max_coeff = 100; fo.max_rows = 1500; fo.allow_sparse = false; fo.allow_zero_weights = false;
  FitProblem p = gen_fit_problem(ch, fo);
  uint32_t md = (uint32_t)ch.draw(0, p.ndim - 1);
  // moderate smoothing (the generator's 1e3..1e6 flatten everything), possibly in some dimensions only
  static const double sm[] = {0, 1e-3, 0.05, 0.5, 3.0};
  bool any = false;
  for (uint32_t d = 0; d < p.ndim; d++) { p.smooth[d] = sm[ch.draw(0, 4)]; if (p.smooth[d] > 0) any = true; }
  if (!any) p.smooth[ch.draw(0, p.ndim - 1)] = 0.5;
  if (p.single_smooth) for (auto& v : p.smooth) v = p.smooth[0];
  auto nf = p.nfun(); size_t n = p.ncoeff();
  std::vector<size_t> stride(p.ndim); { size_t a = 1; for (uint32_t d = p.ndim; d-- > 0;) { stride[d] = a; a *= nf[d]; } }
  // data: a steeply increasing spline on the same knots, well above zero
  std::vector<LD> ctrue(n);
  uint64_t salt = ch.draw(0, 0xffff);
  for (size_t i = 0; i < n; i++) { size_t j = (i / stride[md]) % nf[md]; size_t fibre = i - j * stride[md]; ctrue[i] = 4.0L + (LD)(mix64(salt ^ mix64(fibre)) % 8) / 8.0L + (LD)j * (1.0L + (LD)(mix64(salt ^ mix64(fibre * 31 + 7)) % 4) / 4.0L); }
  for (size_t row = 0; row < p.nrows(); row++) {
    std::vector<std::pair<size_t, LD>> ent{{0, 1.0L}};
    for (uint32_t d = 0; d < p.ndim; d++) { std::vector<std::pair<size_t, LD>> nx; for (auto& e : ent) for (size_t i = 0; i < nf[d]; i++) { LD b = fit_basis(p.knots[d], (int)i, (int)p.order[d], p.coords[d][p.idx[d][row]]); if (b != 0) nx.push_back({e.first + i * stride[d], e.second * b}); } ent.swap(nx); }
    LD v = 0; for (auto& e : ent) v += ctrue[e.first] * e.second;
    p.y[row] = (double)v;
  }
  p.data_class = "steep_monotone_spline_on_same_knots";
  int gap = 0;
  if (ch.coin(1, 3)) { gap = truncate_along(p, md, 3 + (int)ch.draw(0, 2)); if (gap) { p.porder[md] = std::min<uint32_t>(2, p.order[md]); if (p.smooth[md] == 0) p.smooth[md] = 0.05; p.single_smooth = p.single_porder = false; } }
  r.json = "{\"monodim\":" + std::to_string(md) + ",\"coefficients_without_data\":" + std::to_string(gap) + ",\"problem\":" + p.json() + "}";
  DenseSys S = assemble_reference(p);
  std::vector<LD> L;
  if (!cholesky_ld(S.A, S.n, L)) { r.discard = true; if (st) st->label("discard:not_positive_definite"); return r; }
  LD cond = cond_estimate(S.A, L, S.n);
  if (!(cond < 1e4L)) { r.discard = true; if (st) st->label("discard:ill_conditioned"); return r; }
  std::vector<LD> cref = chol_solve(L, S.n, S.r);
  LD nrm = 0; for (LD v : cref) nrm = std::max(nrm, fabsl(v));
  // inactive with a margin (relative to the size of the coefficients), otherwise outside this sub-property
  LD margin = 1e-3L * nrm;
  for (size_t i = 0; i < n; i++) { size_t j = (i / stride[md]) % nf[md]; LD lower = j == 0 ? 0 : cref[i - stride[md]]; if (!(cref[i] >= lower + margin)) { r.discard = true; if (st) st->label("discard:constraint_active_for_the_smoothed_reference"); return r; } }
  Table t;
  try { run_fit(t, p, md); } catch (std::exception& e) { r.fail = std::string("monotonic fit threw: ") + e.what(); return r; }
  if (st) {
    st->label("ndim:" + std::to_string(p.ndim)); st->label("monodim:" + std::to_string(md)); st->label("constraint:inactive");
    bool other = false; for (uint32_t d = 0; d < p.ndim; d++) if (d != md && p.smooth[d] > 0) other = true;
    if (gap) st->label("trailing_coefficients_without_data");
    st->label(p.smooth[md] > 0 ? "smoothing:monotonic_dimension" : "smoothing:not_in_monotonic_dimension"); if (other) st->label("smoothing:other_dimension");
    for (uint32_t d = 0; d < p.ndim; d++) if (p.smooth[d] > 0) st->label("porder_smoothed:" + std::to_string(p.porder[d]));
    Hasher h; h.add(md); for (double v : p.y) h.addd(v); for (double v : p.smooth) h.addd(v); for (uint32_t d = 0; d < p.ndim; d++) for (double k : p.knots[d]) h.addd(k); st->nontriv(h.h); st->sample(r.json);
  }
  std::string e = check_monotone(t, p, md);
  if (!e.empty()) { r.fail = e; return r; }
  for (size_t i = 0; i < n; i++) {
    LD d = fabsl((LD)t.get_coefficients()[i] - cref[i]);
    LD tol = 64 * cond * FLT_EPSILON * nrm + 1e-5L;   // block3 stops at its own absolute tolerance on the multipliers
    if (!(d <= tol)) { r.fail = "inactive constraint: monotonic fit coefficient " + std::to_string(i) + " = " + jnum(t.get_coefficients()[i]) + " differs from the unconstrained minimiser of the same penalised objective " + jnum((double)cref[i]) + " (smoothing " + jarr(p.smooth) + ", penalty orders " + jarr(p.porder) + ", cond " + jnum((double)cond) + ")"; return r; }
  }
  return r;
}

}  // namespace

int main(int argc, char** argv) {
  Options o = parse_options(argc, argv);
  Prop a{"monotone_any_data", body_any, 2.0, 1, 2048, 120}, b{"inactive_constraint", body_inactive, 1.0, 1, 2048, 120},
       c{"inactive_constraint_smoothed", body_inactive_smoothed, 1.0, 1, 2048, 120};
  return run_main(o, "C10", {a, b, c});
}
