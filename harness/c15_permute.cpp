// C15 — permuting dimensions relabels axes without changing the function.
// Exhaustive over all permutations for ndim <= 5 per generated table, sampled for ndim 6.
#include <cfloat>
#include "common/vf_rc.hpp"
#include "common/libtable.hpp"
#include <photospline/cinter/splinetable.h>
#include <numeric>

using namespace vf;

namespace {

struct Snapshot {
  uint32_t ndim; std::vector<uint32_t> order; std::vector<std::vector<double>> knots; std::vector<uint64_t> naxes, strides;
  std::vector<double> elo, ehi, period; std::vector<float> coeff;
  bool operator==(const Snapshot& o) const {
    return ndim == o.ndim && order == o.order && knots == o.knots && naxes == o.naxes && strides == o.strides && elo == o.elo && ehi == o.ehi &&
           period == o.period && coeff.size() == o.coeff.size() && memcmp(coeff.data(), o.coeff.data(), coeff.size() * 4) == 0;
  }
};
Snapshot snap(const Table& t) {
  Snapshot s; s.ndim = t.get_ndim();
  for (uint32_t d = 0; d < s.ndim; d++) {
    s.order.push_back(t.get_order(d));
    s.knots.emplace_back(t.get_knots(d), t.get_knots(d) + t.get_nknots(d));
    s.naxes.push_back(t.get_ncoeffs(d)); s.strides.push_back(t.get_stride(d));
    s.elo.push_back(t.lower_extent(d)); s.ehi.push_back(t.upper_extent(d)); s.period.push_back(t.get_period(d));
  }
  s.coeff.assign(t.get_coefficients(), t.get_coefficients() + t.get_ncoeffs());
  return s;
}

std::string check_perm(const TableSpec& s, const std::vector<unsigned char>& bytes, const std::vector<size_t>& p, Chooser& ch, bool use_c) {
  size_t nd = s.ndim();
  Table t;
  std::vector<unsigned char> b = bytes;
  t.read_fits_mem(b.data(), b.size());
  Snapshot before = snap(t);
  if (use_c) {
    struct splinetable ct; ct.data = &t;
    std::vector<size_t> pp = p;
    if (splinetable_permute(&ct, pp.data()) != 0) return "C wrapper rejected a valid permutation";
  } else {
    try { t.permuteDimensions(p); } catch (std::exception& e) { return std::string("valid permutation rejected: ") + e.what(); }
  }
  Snapshot a = snap(t);
  if (a.ndim != nd) return "ndim changed";
  for (size_t i = 0; i < nd; i++) {
    size_t j = p[i];
    std::string D = " (new dimension " + std::to_string(i) + " = old " + std::to_string(j) + ")";
    if (a.order[i] != before.order[j]) return "order not permuted" + D;
    if (a.knots[i] != before.knots[j]) return "knot vector not permuted" + D;
    if (a.naxes[i] != before.naxes[j]) return "coefficient count not permuted" + D;
    if (!same_bits(a.elo[i], before.elo[j]) || !same_bits(a.ehi[i], before.ehi[j])) return "extents not permuted" + D;
    if (!same_bits(a.period[i], before.period[j])) return "period not permuted" + D + ": " + jnum(a.period[i]) + " != " + jnum(before.period[j]);
  }
  uint64_t acc = 1;
  for (size_t i = nd; i-- > 0;) { if (a.strides[i] != acc) return "strides are not the C-order strides of the new axis lengths"; acc *= a.naxes[i]; }
  if (acc != before.coeff.size() || a.coeff.size() != before.coeff.size()) return "coefficient count changed";
  // every coefficient relocated exactly
  std::vector<uint64_t> idx(nd, 0);
  for (uint64_t pos = 0; pos < before.coeff.size(); pos++) {
    uint64_t r = pos;
    for (size_t d = 0; d < nd; d++) { idx[d] = r / before.strides[d]; r %= before.strides[d]; }
    uint64_t npos = 0;
    for (size_t i = 0; i < nd; i++) npos += idx[p[i]] * a.strides[i];
    if (memcmp(&a.coeff[npos], &before.coeff[pos], 4) != 0) return "coefficient at old index " + std::to_string(pos) + " was not relocated to its new index " + std::to_string(npos);
  }
  // same function
  auto rd = s.refdims();
  for (int k = 0; k < 3; k++) {
    std::vector<double> x(nd), xp(nd);
    for (size_t d = 0; d < nd; d++) { x[d] = gen_coord_inside(ch, s.dims[d]); avoid_known_point(s.dims[d], x[d]); }
    for (size_t i = 0; i < nd; i++) xp[i] = x[p[i]];
    std::vector<int> c(nd);
    if (!t.searchcenters(xp.data(), c.data())) return "lookup failed at the permuted point";
    double v = t.ndsplineeval(xp.data(), c.data(), 0);
    VM ref; uint64_t nt;
    ref_eval(rd, s.coeff, x.data(), nullptr, ref, &nt);
    uint64_t so = 0; for (auto& d : s.dims) so += d.order;
    double tol = (8.0 + 4.0 * (nd + so) + 2.0 * nt) * FLT_EPSILON * (double)ref.m + 1e-30;
    if (!(fabs(v - (double)ref.v) <= tol)) return "value at the permuted point " + jnum(v) + " differs from the original function " + jnum((double)ref.v);
  }
  // inverse restores
  std::vector<size_t> inv(nd);
  for (size_t i = 0; i < nd; i++) inv[p[i]] = i;
  try { t.permuteDimensions(inv); } catch (std::exception& e) { return std::string("inverse permutation rejected: ") + e.what(); }
  Table orig;
  b = bytes;
  orig.read_fits_mem(b.data(), b.size());
  if (!(snap(t) == before)) return "applying the inverse permutation does not restore every attribute";
  if (!(t == orig)) return "table after permutation + inverse does not compare equal to the original";
  return "";
}

CaseResult body_perm(Chooser& ch, Stats* st) {
  CaseResult r;
  QuietStderr q;
  SpecOpts so; so.max_ndim = 6; so.distinct_axes = true; so.max_terms = 600; so.max_coeffs = 2500; so.ko.extra_max = 3;
  TableSpec s = gen_spec(ch, so);
  int i = 1;
  for (auto& d : s.dims) { d.period = 0.5 + 1.25 * (i++); d.ext_lo = d.knots.front() + 0.125 * i; d.ext_hi = d.knots.back() - 0.0625 * i; }
  size_t nd = s.ndim();
  std::vector<unsigned char> bytes = spec_to_fits(s);
  std::vector<std::vector<size_t>> perms;
  std::vector<size_t> p(nd); std::iota(p.begin(), p.end(), 0);
  if (nd <= 5) { do perms.push_back(p); while (std::next_permutation(p.begin(), p.end())); }
  else {
    for (int k = 0; k < 40; k++) {  // Fisher–Yates from draws; non-involutions dominate at ndim 6
      std::iota(p.begin(), p.end(), 0);
      for (size_t a = nd - 1; a > 0; a--) std::swap(p[a], p[ch.draw(0, a)]);
      perms.push_back(p);
    }
  }
  std::ostringstream js;
  js << "{\"spec\":" << s.json(4) << ",\"permutations\":" << perms.size() << ",\"first_perms\":[";
  for (size_t k = 0; k < perms.size() && k < 3; k++) js << (k ? "," : "") << jarr(perms[k]);
  js << "]}";
  r.json = js.str();
  if (st) { st->label("ndim:" + std::to_string(nd)); st->label(nd <= 5 ? "exhaustive_in_permutation" : "sampled_permutations"); st->sample(r.json); }
  for (auto& pm : perms) {
    bool use_c = ch.coin(1, 8);
    std::string e;
    try { e = check_perm(s, bytes, pm, ch, use_c); } catch (std::exception& ex) { e = std::string("unexpected exception: ") + ex.what(); }
    std::vector<size_t> inv(nd); for (size_t a = 0; a < nd; a++) inv[pm[a]] = a;
    bool noninv = inv != pm;
    if (st) {
      st->label("permutations_checked"); if (noninv) st->label("non_involution"); if (use_c) st->label("via_C_wrapper");
      if (noninv || nd >= 3) { Hasher h; h.add(s.hash()); for (auto v : pm) h.add(v); st->nontriv(h.h); }
    }
    if (!e.empty()) { r.fail = "permutation " + jarr(pm) + ": " + e; return r; }
  }
  return r;
}

CaseResult body_malformed(Chooser& ch, Stats* st) {
  CaseResult r;
  QuietStderr q;
  SpecOpts so; so.max_ndim = 6; so.distinct_axes = true; so.max_terms = 600; so.max_coeffs = 2500; so.ko.extra_max = 3;
  TableSpec s = gen_spec(ch, so);
  int i = 1; for (auto& d : s.dims) d.period = 2.0 * (i++);
  size_t nd = s.ndim();
  Table t; build_p1(t, s);
  Snapshot before = snap(t);
  std::vector<size_t> p(nd); std::iota(p.begin(), p.end(), 0);
  for (size_t a = nd - 1; a > 0 && nd > 1; a--) std::swap(p[a], p[ch.draw(0, a)]);
  int kind = (int)ch.draw(0, 5);
  std::string kname;
  switch (kind) {
    case 0: kname = "empty"; p.clear(); break;
    case 1: kname = "too_short"; p.pop_back(); break;
    case 2: kname = "too_long"; p.push_back(nd); break;
    case 3: kname = "duplicate"; if (nd >= 2) p[ch.draw(0, nd - 1)] = p[(ch.draw(0, nd - 2) + 1 + 0) % nd]; else p[0] = 1; break;
    case 4: kname = "out_of_range"; p[ch.draw(0, nd - 1)] = nd + ch.draw(0, 3); break;
    default: kname = "size_max"; p[ch.draw(0, nd - 1)] = SIZE_MAX; break;
  }
  // a "duplicate" draw may by chance still be a permutation: check
  std::vector<bool> seen(nd, false); bool isperm = p.size() == nd;
  if (isperm) for (auto v : p) { if (v >= nd || seen[v]) { isperm = false; break; } seen[v] = true; }
  r.json = "{\"spec\":" + s.json(4) + ",\"kind\":" + jstr(kname) + ",\"argument\":" + jarr(p) + "}";
  if (isperm) { r.discard = true; return r; }
  if (st) { st->label("malformed:" + kname); Hasher h; h.add(s.hash()); for (auto v : p) h.add(v); h.add(kind); st->nontriv(h.h); st->sample(r.json); }
  bool use_c = p.size() == nd && ch.coin(1, 3);
  bool rejected = false;
  if (use_c) { struct splinetable ct; ct.data = &t; rejected = splinetable_permute(&ct, p.data()) != 0; if (st) st->label("via_C_wrapper"); }
  else { try { t.permuteDimensions(p); } catch (std::exception&) { rejected = true; } }
  if (!rejected) { r.fail = "argument that is not a permutation (" + kname + ") was accepted"; return r; }
  if (!(snap(t) == before)) r.fail = "table changed although the malformed permutation (" + kname + ") was rejected";
  return r;
}

}  // namespace

int main(int argc, char** argv) {
  Options o = parse_options(argc, argv);
  Prop a{"permute", body_perm, 1.0}, b{"malformed", body_malformed, 1.0};
  return run_main(o, "C15", {a, b});
}
