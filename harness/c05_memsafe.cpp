// C05 — lookup and evaluation are memory-safe for every coordinate vector.
// Oracle inside the case: ASan+UBSan+assertions (no report), exactly-sized heap output buffers with
// canaries, the documented refusal of gradients for ndim >= 8, and termination (watchdog / -timeout).
// One body, two engines: fork-isolated rapidcheck twin and libFuzzer target (-DVF_FUZZ).
#include "common/vf_rc.hpp"
#include "common/libtable.hpp"
#include "common/producers.hpp"
#include <photospline/cinter/splinetable.h>
#ifdef VF_FUZZ
#include "common/vf_fuzz.hpp"
#endif

using namespace vf;

namespace {

double any_double(Chooser& ch, const DimSpec& d, std::string& kind) {
  const auto& k = d.knots; int n = (int)k.size();
  switch (ch.draw(0, 9)) {
    case 0: { kind = "raw_bits"; uint64_t sign = ch.draw(0, 1), ex = ch.draw(0, 2047), m1 = ch.draw(0, (1u << 26) - 1), m2 = ch.draw(0, (1u << 26) - 1);
              uint64_t bits = (sign << 63) | (ex << 52) | (m1 << 26) | m2; double v; memcpy(&v, &bits, 8); return v; }
    case 1: { kind = "nan"; uint64_t bits = 0x7ff0000000000000ULL | (ch.draw(0, 1) << 63) | (ch.draw(0, 1) << 51) | (1 + ch.draw(0, 0xffff)); double v; memcpy(&v, &bits, 8); return v; }
    case 2: kind = "inf"; return ch.coin(1, 2) ? INFINITY : -INFINITY;
    case 3: kind = "denormal"; return (ch.coin(1, 2) ? 1 : -1) * ldexp((double)(1 + ch.draw(0, 1000)), -1074);
    case 4: kind = "on_knot"; return k[ch.draw(0, n - 1)];
    case 5: kind = "knot_neighbour"; return nextafter(k[ch.draw(0, n - 1)], ch.coin(1, 2) ? INFINITY : -INFINITY);
    case 6: kind = "beyond"; return ch.coin(1, 2) ? k[n - 1] + (k[n - 1] - k[0]) * (double)(1 + ch.draw(0, 4)) : k[0] - (k[n - 1] - k[0]) * (double)(1 + ch.draw(0, 4));
    default: { int kk; double v = gen_coord_inside(ch, d, &kk); kind = std::string("inside:") + coord_kind_name(kk); return v; }
  }
}

const double kCanary = -7.25e111;

CaseResult body(Chooser& ch, Stats* st) {
  CaseResult r;
  SpecOpts so; so.max_terms = 4096; so.max_coeffs = 20000;
  TableSpec s; std::unique_ptr<Table> t; std::string producer;
  std::string err;
  if (gen_version() >= 2 && ch.coin(1, 3)) {  // order patterns with their own specialised evaluation kernels
    s = gen_pattern_spec(ch); producer = "P1_read"; t.reset(new Table());
    { QuietStderr q; try { build_p1(*t, s); } catch (std::exception& e) { err = e.what(); } }
    if (st) st->label("orders:dispatch_pattern");
  } else err = produce_table(ch, so, s, t, producer);
  std::ostringstream js;
  js << "{\"producer\":" << jstr(producer) << ",\"spec\":" << s.json(4) << ",\"points\":[";
  if (!err.empty()) { r.fail = err; r.json = js.str() + "]}"; return r; }
  size_t nd = s.ndim();
  if (st) { st->label("producer:" + producer); st->label("ndim:" + std::to_string(nd)); }
  auto evf = t->get_evaluator<float>(); auto evd = t->get_evaluator<double>();
  struct splinetable ct; ct.data = t.get();
  volatile double sink = 0;
  for (int p = 0; p < 6 && r.fail.empty(); p++) {
    std::vector<double> x(nd); bool special = false;
    for (size_t d = 0; d < nd; d++) {
      std::string kind; x[d] = any_double(ch, s.dims[d], kind);
      if (st) st->label("coord:" + kind);
      if (kind != "inside:interior") special = true;
    }
    if (p) js << ",";
    js << jarr(x);
    // exactly-sized heap buffers (ASan red zones on both sides)
    std::unique_ptr<int[]> cen(new int[nd]); for (size_t d = 0; d < nd; d++) cen[d] = -424242;
    bool ok = t->searchcenters(x.data(), cen.get());
    std::unique_ptr<int[]> cen2(new int[nd]);
    int okc = tablesearchcenters(&ct, x.data(), cen2.get());
    if ((okc != 0) != ok) { r.fail = "C lookup flag differs from C++"; break; }
    sink = sink + (*t)(x.data()) + evf(x.data(), 0) + evd(x.data(), (int)ch.draw(0, (1u << nd) - 1));
    if (!ok) { if (st) st->label("lookup_refused"); continue; }
    if (st) { st->label("lookup_ok"); if (special) { Hasher h; h.add(s.hash()); for (double v : x) h.addd(v); st->nontriv(h.h); } }
    for (size_t d = 0; d < nd; d++) if (cen[d] < (int)s.dims[d].order || cen[d] > (int)s.dims[d].knots.size() - (int)s.dims[d].order - 2) { r.fail = "lookup succeeded with a center outside [order, nknots-order-2]"; break; }
    if (!r.fail.empty()) break;
    int mask = (int)ch.draw(0, (1u << nd) - 1);
    sink = sink + t->ndsplineeval<float>(x.data(), cen.get(), mask) + t->ndsplineeval<double>(x.data(), cen.get(), mask) + evf.ndsplineeval(x.data(), cen.get(), mask) +
           evd.ndsplineeval(x.data(), cen.get(), 0) + ::ndsplineeval(&ct, x.data(), cen.get(), mask);
    std::unique_ptr<unsigned[]> dv(new unsigned[nd]); for (size_t d = 0; d < nd; d++) dv[d] = (unsigned)ch.draw(0, 7);
    sink = sink + t->ndsplineeval_deriv(x.data(), cen.get(), dv.get()) + evf.ndsplineeval_deriv(x.data(), cen.get(), dv.get()) + ::ndsplineeval_deriv(&ct, x.data(), cen.get(), dv.get()) +
           t->ndsplineeval_deriv(x.data(), cen.get(), nullptr);
    // gradient: documented size ndim+1, refusal for ndim >= 8
    for (int which = 0; which < 4 && r.fail.empty(); which++) {
      std::unique_ptr<double[]> g(new double[nd + 1]); for (size_t i = 0; i <= nd; i++) g[i] = kCanary;
      bool threw = false;
      try {
        if (which == 0) t->ndsplineeval_gradient<float>(x.data(), cen.get(), g.get());
        else if (which == 1) t->ndsplineeval_gradient<double>(x.data(), cen.get(), g.get());
        else if (which == 2) evf.ndsplineeval_gradient(x.data(), cen.get(), g.get());
        else evd.ndsplineeval_gradient(x.data(), cen.get(), g.get());
      } catch (std::runtime_error&) { threw = true; }
      if (threw != (nd >= 8)) { r.fail = std::string("gradient of a ") + std::to_string(nd) + "-dimensional table was " + (threw ? "refused" : "not refused"); break; }
      if (!threw) for (size_t i = 0; i <= nd; i++) if (g[i] == kCanary) { r.fail = "gradient did not write output lane " + std::to_string(i); break; }
      if (threw) for (size_t i = 0; i <= nd; i++) if (g[i] != kCanary) { r.fail = "refused gradient wrote to the output buffer"; break; }
    }
    if (nd <= 7) { std::unique_ptr<double[]> g(new double[nd + 1]); ::ndsplineeval_gradient(&ct, x.data(), cen.get(), g.get()); sink = sink + g[0]; }
    if (st) st->label("evaluated");
  }
  (void)sink;
  js << "]}";
  r.json = js.str();
  if (st) st->sample(r.json);
  return r;
}

}  // namespace

#ifndef VF_FUZZ
int main(int argc, char** argv) {
  Options o = parse_options(argc, argv);
  Prop a{"memsafe", body, 1.0, 1 /* isolate */, 3072, 10};
  return run_main(o, "C05", {a});
}
#else
VF_FUZZ_TARGET("C05", "memsafe_fuzz", body, nullptr)
#endif
