#!/usr/bin/env python3
"""Writes /verif/MANIFEST.json from harness/vconfig.py (single source of truth)."""
import json, os, sys
HERE = os.path.dirname(os.path.abspath(__file__))
sys.path.insert(0, HERE)
import vconfig
ALL = ["C%02d" % i for i in range(1, 21)]
checks = []
for pid in sorted(vconfig.PROPS):
    P = vconfig.PROPS[pid]
    checks.append({
        "property_id": pid,
        "quick_cmd": "./vcheck --prop %s --tier quick" % pid,
        "thorough_cmd": "./vcheck --prop %s --tier thorough" % pid,
        "evidence_file": "evidence/%s.json" % pid,
        "replay_cmd_template": "./vcheck --prop %s --replay {path}" % pid,
        "engine": P.get("engine", "rapidcheck"),
        "level_claimed": {"category": P["level"], "text": P["level_text"], "design_ref": "DESIGN.md section 3, " + pid},
        "level_note": P["level_note"],
        "technique": P["technique"],
    })
na = [{"property_id": p, "reason": vconfig.NOT_APPLICABLE.get(p, "check not built yet in this round; see DESIGN.md section 3 for the planned generator and oracle")}
      for p in ALL if p not in vconfig.PROPS]
m = {
    "version": 1,
    "setup_cmd": "./vcheck setup",
    "hooks": {"guard": "PHOTOSPLINE_VERIF", "enable": "vcheck compiles /repo's sources itself and passes -DPHOTOSPLINE_VERIF (COMMON_DEFS in /verif/vcheck); the project's own build never defines it",
              "baseline_off_cmd": "cmake --build /repo/_build -j16 -- -k 0; ctest --test-dir /repo/_build -j8 --timeout 900",
              "source_commits": ["631288f", "f64b46f"], "add_only": True},
    "engines": [
        {"name": "rapidcheck", "path": "harness/common/vf_rc.hpp", "serves_properties": sorted(vconfig.PROPS), "kind_free_text": "property-based testing (rapidcheck 'checkProperty' over recorded choice sequences; inline or fork-per-case isolated execution; shrunk failures written as replay files)"},
    ],
    "checks": checks,
    "notes": "All checks rebuild the library sources from /repo's working tree (hash-stamped) with clang++ -fsanitize=address,undefined and assertions enabled. VERIF_SEED selects the rapidcheck seeds (worker w uses seed*1000+w+...).  known_findings.json lists genuine defects recorded (status known) or repaired by fix: commits (status fixed).",
    "not_applicable": na,
}
json.dump(m, open(os.path.join(HERE, "..", "MANIFEST.json"), "w"), indent=1)
print("MANIFEST.json: %d checks, %d not claimed" % (len(checks), len(na)))
