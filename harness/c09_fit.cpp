// C09 — the unconstrained fit minimises the penalised weighted least-squares objective.
// Oracle: independent dense long-double assembly of A = B'WB + sum_d lambda_d D_d'D_d, r = B'Wy;
// (1) first-order optimality of the returned coefficients, componentwise, sound for any
// conditioning; (2) agreement with the reference solution when well conditioned; (3) metamorphic
// relations (spline data reproduced, zero-weight entries and listing order irrelevant, scalar vs
// per-dimension arguments, C wrapper identical, polynomials below the penalty order reproduced for
// every smoothing strength).
#include <cfloat>
#include "common/vf_rc.hpp"
#include "common/fitgen.hpp"
#include <photospline/cinter/splinetable.h>

using namespace vf;

namespace {

std::string check_optimality(const FitProblem& p, const DenseSys& S, const float* c, double& worst, LD cond) {
  size_t n = S.n;
  worst = 0;
  LD cmax = 0; for (size_t j = 0; j < n; j++) cmax = std::max(cmax, fabsl((LD)c[j]));
  for (size_t i = 0; i < n; i++) {
    LD s = 0, m = 0, arow = 0;
    for (size_t j = 0; j < n; j++) { LD a = S.A[i * n + j]; if (a == 0) continue; s += a * (LD)c[j]; m += fabsl(a) * fabsl((LD)c[j]); arow += fabsl(a); }
    LD res = fabsl(s - S.r[i]), scale = m + fabsl(S.r[i]);
    double kappa = 16.0;  // coefficients are rounded to float: |A (c_float - c)| <= eps_f |A||c|
    // the double-precision sparse solve is backward stable in the norm sense only: its error in any coefficient is
    // up to cond*eps_d*max|c|, which in a row whose own terms are tiny (margin cells of a high-order dimension
    // next to O(1) cells) exceeds the row's float-rounding allowance
    double tol = kappa * FLT_EPSILON * (double)scale + (double)(64 * cond * (LD)DBL_EPSILON * arow * cmax) + 1e-30;
    if (scale > 0) worst = std::max(worst, (double)(res / (FLT_EPSILON * scale)));
    if (!((double)res <= tol)) {
      std::ostringstream o;
      o << "returned coefficients violate the normal equations in row " << i << ": |A c - r| = " << jnum((double)res) << " > " << jnum(tol) << " (scale " << jnum((double)scale) << ")";
      (void)p;
      return o.str();
    }
  }
  return "";
}

CaseResult body_objective(Chooser& ch, Stats* st) {
  CaseResult r;
  QuietStderr q;
  FitGenOpts fo; fo.max_ndim = 4; fo.max_coeff = 260; fo.max_rows = 3000;
  FitProblem p = gen_fit_problem(ch, fo);
  // weights of any absolute size: scaling all weights and all smoothing strengths by one factor leaves the
  // minimiser where it is, so nothing in the fit may depend on their absolute magnitude
  static const double wscales[] = {1, 1, 1, 1e-12, 1e-7, 1e5, 1e-15};
  double wscale = gen_version() >= 2 ? wscales[ch.draw(0, 6)] : 1.0;
  if (wscale != 1.0) { for (double& v : p.w) v *= wscale; for (double& v : p.smooth) v *= wscale; }
  r.json = p.json();
  DenseSys S = assemble_reference(p);
  std::vector<LD> L;
  if (!cholesky_ld(S.A, S.n, L)) { r.discard = true; if (st) st->label("discard:not_positive_definite"); return r; }
  LD cond = cond_estimate(S.A, L, S.n);
  if (!(cond < 1e6L)) { r.discard = true; if (st) st->label("discard:ill_conditioned"); return r; }
  if (st) st->label("weight_scale:" + jnum(wscale));
  Table t;
  try { run_fit(t, p, Table::no_monodim); } catch (std::exception& e) { r.fail = std::string("fit threw on a well-posed problem: ") + e.what(); return r; }
  if (t.get_ncoeffs() != S.n) { r.fail = "fit produced " + std::to_string(t.get_ncoeffs()) + " coefficients, expected " + std::to_string(S.n); return r; }
  bool lam = false, nonunit = p.data_class.find("unitw") == std::string::npos, sparse = p.data_class.find("sparse") != std::string::npos;
  for (double s : p.smooth) if (s > 0) lam = true;
  if (st) {
    st->label("ndim:" + std::to_string(p.ndim)); st->label("data:" + p.data_class.substr(0, p.data_class.find('+'))); st->label(sparse ? "sparse" : "dense"); st->label(lam ? "smoothing>0" : "smoothing=0");
    st->label(nonunit ? "weights:varying" : "weights:unit"); if (p.data_class.find("zerow") != std::string::npos) st->label("weights:with_zeros"); st->label("listing:" + p.listing);
    for (uint32_t d = 0; d < p.ndim; d++) { st->label("order:" + std::to_string(p.order[d])); st->label("porder:" + std::to_string(p.porder[d])); }
    if (p.ndim >= 2 || lam || sparse || nonunit) { Hasher h; for (uint32_t d = 0; d < p.ndim; d++) { h.add(p.order[d]); h.add(p.porder[d]); h.addd(p.smooth[d]); for (double k : p.knots[d]) h.addd(k); } for (double v : p.y) h.addd(v); for (double v : p.w) h.addd(v); st->nontriv(h.h); }
    st->maxi("max_log10_cond", (double)log10l(cond));
    st->sample(r.json);
  }
  double worst = 0;
  std::string e = check_optimality(p, S, t.get_coefficients(), worst, cond);
  if (st) st->maxi("max_residual_over_epsf_scale", worst);
  if (!e.empty()) { r.fail = e; return r; }
  // (2) agreement with the reference minimiser when well conditioned
  if (cond < 1e4L) {
    std::vector<LD> cref = chol_solve(L, S.n, S.r);
    LD nrm = 0; for (LD v : cref) nrm = std::max(nrm, fabsl(v));
    for (size_t i = 0; i < S.n; i++) {
      LD d = fabsl((LD)t.get_coefficients()[i] - cref[i]);
      LD tol = 16 * cond * FLT_EPSILON * nrm + 1e-30L;
      if (!(d <= tol)) { r.fail = "coefficient " + std::to_string(i) + " = " + jnum(t.get_coefficients()[i]) + " differs from the minimiser " + jnum((double)cref[i]) + " (cond " + jnum((double)cond) + ")"; return r; }
    }
    if (st) st->label("compared_with_reference_minimiser");
  }
  // (3a) scalar vs per-dimension arguments, and the C wrapper: bit-identical
  if (p.single_smooth || p.single_porder || ch.coin(1, 4)) {
    FitProblem p2 = p; p2.single_smooth = false; p2.single_porder = false;
    Table t2; run_fit(t2, p2, Table::no_monodim);
    if (memcmp(t2.get_coefficients(), t.get_coefficients(), S.n * 4) != 0) { r.fail = "scalar and per-dimension smoothing/penalty arguments give different coefficients"; return r; }
    struct splinetable ct; splinetable_init(&ct);
    NdSparseHolder h(p2);
    std::vector<const double*> cp, kp; std::vector<uint64_t> nk;
    for (uint32_t d = 0; d < p.ndim; d++) { cp.push_back(p2.coords[d].data()); kp.push_back(p2.knots[d].data()); nk.push_back(p2.knots[d].size()); }
    int rc = splinetable_glamfit(&ct, &h.nd, p2.w.data(), cp.data(), p2.order.data(), kp.data(), nk.data(), p2.smooth.data(), p2.porder.data(), PHOTOSPLINE_GLAM_NO_MONODIM, false);
    if (rc != 0) { splinetable_free(&ct); r.fail = "C wrapper failed on a valid fit"; return r; }
    bool same = memcmp(splinetable_coefficients(&ct), t.get_coefficients(), S.n * 4) == 0;
    splinetable_free(&ct);
    if (!same) { r.fail = "C wrapper and C++ fit give different coefficients"; return r; }
    if (st) st->label("scalar_vs_vector_and_C_compared");
  }
  return r;
}

// (3b) metamorphic: data generated by a spline on the same knots with zero smoothing are reproduced;
// zero-weight entries with arbitrary values and a permuted listing change nothing beyond rounding
CaseResult body_metamorphic(Chooser& ch, Stats* st) {
  CaseResult r;
  QuietStderr q;
  FitGenOpts fo; fo.max_ndim = 3; fo.max_coeff = 200; fo.max_rows = 2500; fo.allow_sparse = false; fo.allow_zero_weights = false;
  FitProblem p = gen_fit_problem(ch, fo);
  for (auto& s : p.smooth) s = 0;
  // restrict abscissae to the knot range so that the design has full rank by construction
  // target spline coefficients
  size_t n = p.ncoeff(); auto nf = p.nfun();
  std::vector<LD> ctrue(n);
  uint64_t salt = ch.draw(0, 0xffff);
  for (size_t i = 0; i < n; i++) ctrue[i] = (LD)((int)(mix64(salt ^ mix64(i)) % 17) - 8) / 4.0L;
  std::vector<size_t> stride(p.ndim); { size_t a = 1; for (uint32_t d = p.ndim; d-- > 0;) { stride[d] = a; a *= nf[d]; } }
  for (size_t row = 0; row < p.nrows(); row++) {
    std::vector<std::pair<size_t, LD>> ent{{0, 1.0L}};
    for (uint32_t d = 0; d < p.ndim; d++) { std::vector<std::pair<size_t, LD>> nx; for (auto& e : ent) for (size_t i = 0; i < nf[d]; i++) { LD b = fit_basis(p.knots[d], (int)i, (int)p.order[d], p.coords[d][p.idx[d][row]]); if (b != 0) nx.push_back({e.first + i * stride[d], e.second * b}); } ent.swap(nx); }
    LD v = 0; for (auto& e : ent) v += ctrue[e.first] * e.second;
    p.y[row] = (double)v;
  }
  p.data_class = "spline_on_same_knots";
  r.json = p.json();
  DenseSys S = assemble_reference(p);
  std::vector<LD> L;
  if (!cholesky_ld(S.A, S.n, L)) { r.discard = true; return r; }
  LD cond = cond_estimate(S.A, L, S.n);
  if (!(cond < 1e5L)) { r.discard = true; if (st) st->label("discard:ill_conditioned"); return r; }
  Table t;
  try { run_fit(t, p, Table::no_monodim); } catch (std::exception& e) { r.fail = std::string("fit threw: ") + e.what(); return r; }
  for (size_t i = 0; i < n; i++) {
    LD d = fabsl((LD)t.get_coefficients()[i] - ctrue[i]);
    if (!(d <= 32 * cond * FLT_EPSILON * 2.0L + 1e-6L)) { r.fail = "spline data on the same knots are not reproduced with zero smoothing: coefficient " + std::to_string(i) + " = " + jnum(t.get_coefficients()[i]) + ", generating value " + jnum((double)ctrue[i]); return r; }
  }
  // add zero-weight entries with arbitrary values and shuffle the listing
  FitProblem p2 = p;
  size_t extra = 1 + ch.draw(0, 20);
  for (size_t e = 0; e < extra; e++) { for (uint32_t d = 0; d < p.ndim; d++) p2.idx[d].push_back((unsigned)ch.draw(0, p.coords[d].size() - 1)); p2.y.push_back(1e5 * (double)ch.range(-50, 50)); p2.w.push_back(0.0); }
  uint64_t s2 = ch.draw(0, 0xffff);
  for (size_t i = p2.y.size() - 1; i > 0; i--) { size_t j = (size_t)(mix64(s2 ^ mix64(i)) % (i + 1)); std::swap(p2.y[i], p2.y[j]); std::swap(p2.w[i], p2.w[j]); for (uint32_t d = 0; d < p.ndim; d++) std::swap(p2.idx[d][i], p2.idx[d][j]); }
  Table t2;
  try { run_fit(t2, p2, Table::no_monodim); } catch (std::exception& e) { r.fail = std::string("fit with added zero-weight entries threw: ") + e.what(); return r; }
  for (size_t i = 0; i < n; i++) {
    LD d = fabsl((LD)t2.get_coefficients()[i] - (LD)t.get_coefficients()[i]);
    if (!(d <= 64 * cond * FLT_EPSILON * 2.0L + 1e-6L)) { r.fail = "zero-weight entries / listing order changed coefficient " + std::to_string(i) + ": " + jnum(t.get_coefficients()[i]) + " -> " + jnum(t2.get_coefficients()[i]); return r; }
  }
  if (st) { st->label("ndim:" + std::to_string(p.ndim)); Hasher h; for (double v : p.y) h.addd(v); for (uint32_t d = 0; d < p.ndim; d++) for (double k : p.knots[d]) h.addd(k); st->nontriv(h.h); st->sample(r.json); }
  return r;
}

// (3c) data that are a polynomial of degree below the penalty order (in every dimension) are reproduced
// for every smoothing strength: the penalty vanishes on them and they lie in the spline space on the
// fully supported range, so the objective's minimum is zero and is attained there.
CaseResult body_polynomial(Chooser& ch, Stats* st) {
  CaseResult r;
  QuietStderr q;
  FitGenOpts fo; fo.max_ndim = 3; fo.min_order = 1; fo.max_coeff = 200; fo.max_rows = 2500; fo.allow_sparse = false; fo.allow_zero_weights = false;
  FitProblem p = gen_fit_problem(ch, fo);
  p.single_porder = false;
  for (uint32_t d = 0; d < p.ndim; d++) p.porder[d] = 1 + (uint32_t)ch.draw(0, p.order[d] - 1);
  if (p.single_smooth) for (auto& s : p.smooth) s = p.smooth[0];
  // abscissae inside the fully supported range only (polynomials are in the spline space there, not in the margins)
  std::vector<double> lo(p.ndim), hi(p.ndim);
  for (uint32_t d = 0; d < p.ndim; d++) {
    lo[d] = p.knots[d][p.order[d]]; hi[d] = p.knots[d][p.knots[d].size() - p.order[d] - 1];
    std::vector<double> c; for (double x : p.coords[d]) if (x >= lo[d] && x <= hi[d]) c.push_back(x);
    // (the generator thins over-large grids from the middle, which can empty a short supported range)
    if (c.size() < p.order[d] + 2) { c.clear(); for (uint32_t j = 0; j < p.order[d] + 2; j++) c.push_back(lo[d] + (hi[d] - lo[d]) * (j + 0.5) / (p.order[d] + 2)); }
    p.coords[d] = c;
  }
  // polynomial with small integer coefficients in the normalised variables u_d = (x_d - mid_d)/half_d
  std::vector<size_t> pstride(p.ndim); size_t nmono = 1; for (uint32_t d = p.ndim; d-- > 0;) { pstride[d] = nmono; nmono *= p.porder[d]; }
  std::vector<double> a(nmono); bool nonconst = false;
  for (size_t m = 0; m < nmono; m++) { a[m] = (double)ch.range(-4, 4); if (m > 0 && a[m] != 0) nonconst = true; }
  auto poly = [&](const std::vector<double>& x) { LD v = 0; for (size_t m = 0; m < nmono; m++) { LD t = a[m]; for (uint32_t d = 0; d < p.ndim; d++) { unsigned e = (unsigned)((m / pstride[d]) % p.porder[d]); LD u = ((LD)x[d] - ((LD)lo[d] + hi[d]) / 2) / (((LD)hi[d] - lo[d]) / 2); for (unsigned k = 0; k < e; k++) t *= u; } v += t; } return v; };
  // dense grid of data with the weight pattern drawn here
  size_t ngrid = 1; for (auto& c : p.coords) ngrid *= c.size();
  int wkind = (int)ch.draw(0, 1); uint64_t salt = ch.draw(0, 0xffff);
  p.idx.assign(p.ndim, {}); p.y.clear(); p.w.clear();
  std::vector<double> x(p.ndim);
  for (size_t g = 0; g < ngrid; g++) {
    size_t rr = g; std::vector<unsigned> I(p.ndim);
    for (uint32_t d = p.ndim; d-- > 0;) { I[d] = (unsigned)(rr % p.coords[d].size()); rr /= p.coords[d].size(); x[d] = p.coords[d][I[d]]; }
    uint64_t h = mix64(salt ^ mix64(g));
    for (uint32_t d = 0; d < p.ndim; d++) p.idx[d].push_back(I[d]);
    p.y.push_back((double)poly(x));
    p.w.push_back(wkind == 0 ? 1.0 : ldexp(1.0 + (double)(h % 64) / 64.0, (int)((h >> 8) % 9) - 4));
  }
  p.data_class = std::string("polynomial_below_penalty_order+dense+") + (wkind ? "varw" : "unitw"); p.listing = "grid_order";
  r.json = "{\"polynomial_coefficients\":" + jarr(a) + ",\"problem\":" + p.json() + "}";
  DenseSys S = assemble_reference(p);
  std::vector<LD> L;
  if (!cholesky_ld(S.A, S.n, L)) { r.discard = true; if (st) st->label("discard:not_positive_definite"); return r; }
  LD cond = cond_estimate(S.A, L, S.n);
  if (!(cond < 1e9L)) { r.discard = true; if (st) st->label("discard:ill_conditioned"); return r; }
  Table t;
  try { run_fit(t, p, Table::no_monodim); } catch (std::exception& e) { r.fail = std::string("fit threw: ") + e.what(); return r; }
  size_t n = p.ncoeff(); auto nf = p.nfun();
  if (t.get_ncoeffs() != n) { r.fail = "fit produced " + std::to_string(t.get_ncoeffs()) + " coefficients, expected " + std::to_string(n); return r; }
  std::vector<size_t> stride(p.ndim); { size_t s2 = 1; for (uint32_t d = p.ndim; d-- > 0;) { stride[d] = s2; s2 *= nf[d]; } }
  LD cmax = 0; for (size_t i = 0; i < n; i++) cmax = std::max(cmax, fabsl((LD)t.get_coefficients()[i]));
  LD pmax = 0; for (double v : p.y) pmax = std::max<LD>(pmax, fabs(v));
  // the returned coefficients are the exact ones rounded to float plus the double-precision solve's error
  LD tol = (8 * (LD)FLT_EPSILON + 256 * cond * (LD)DBL_EPSILON) * std::max(cmax, pmax) + 1e-30L;
  bool lam = false; for (double s2 : p.smooth) if (s2 > 0) lam = true;
  for (size_t row = 0; row < p.nrows(); row++) {
    std::vector<std::pair<size_t, LD>> ent{{0, 1.0L}};
    for (uint32_t d = 0; d < p.ndim; d++) { std::vector<std::pair<size_t, LD>> nx; for (auto& e : ent) for (size_t i = 0; i < nf[d]; i++) { LD b = fit_basis(p.knots[d], (int)i, (int)p.order[d], p.coords[d][p.idx[d][row]]); if (b != 0) nx.push_back({e.first + i * stride[d], e.second * b}); } ent.swap(nx); }
    LD v = 0; for (auto& e : ent) v += (LD)t.get_coefficients()[e.first] * e.second;
    if (!(fabsl(v - (LD)p.y[row]) <= tol)) {
      std::vector<double> xx; for (uint32_t d = 0; d < p.ndim; d++) xx.push_back(p.coords[d][p.idx[d][row]]);
      r.fail = "polynomial data of degree below the penalty order are not reproduced: fitted value " + jnum((double)v) + " at " + jarr(xx) + ", data " + jnum(p.y[row]) + " (tolerance " + jnum((double)tol) + ", cond " + jnum((double)cond) + ")";
      return r;
    }
  }
  if (st) {
    st->label("ndim:" + std::to_string(p.ndim)); st->label(lam ? "smoothing>0" : "smoothing=0"); st->label(nonconst ? "polynomial:non_constant" : "polynomial:constant");
    for (uint32_t d = 0; d < p.ndim; d++) st->label("porder:" + std::to_string(p.porder[d]));
    double smax = 0; for (double s2 : p.smooth) smax = std::max(smax, s2); if (smax >= 1e3) st->label("smoothing>=1e3");
    st->maxi("max_log10_cond", (double)log10l(cond));
    if (lam && nonconst) { Hasher h; for (uint32_t d = 0; d < p.ndim; d++) { h.add(p.order[d]); h.add(p.porder[d]); h.addd(p.smooth[d]); for (double k : p.knots[d]) h.addd(k); } for (double v : p.y) h.addd(v); st->nontriv(h.h); }
    st->sample(r.json);
  }
  return r;
}

}  // namespace

int main(int argc, char** argv) {
  Options o = parse_options(argc, argv);
  Prop a{"objective", body_objective, 3.0}, b{"metamorphic", body_metamorphic, 1.0}, c{"polynomial", body_polynomial, 1.0};
  return run_main(o, "C09", {a, b, c});
}
