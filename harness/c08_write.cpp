// C08 — interrupted or failing writes never pass as success or load as another table.
// Fault enumeration per generated table:
//   (A) crash points: the recorded stdio operation trace of a successful write_fits is replayed
//       into a fresh file; after EVERY operation, and at byte granularity inside every write
//       (block / stdio-chunk boundaries +-1 and drawn offsets), the file is read back with the
//       disk reader: it must be rejected or load equal to the table.
//   (B) fault sequences: the write is repeated failing exactly the k-th stdio operation (every k;
//       ENOSPC/EIO/EFBIG/EDQUOT; short or zero writes; single or persistent), and under
//       RLIMIT_FSIZE in a forked child.  Success may be reported only if the file reads back equal;
//       whatever is left behind must be rejected or load equal.
// Built WITHOUT sanitizers (the executable interposes stdio; see c08_interpose.cpp).
#include "common/vf_rc.hpp"
#include "common/libtable.hpp"
#include "c08_interpose.h"
#include <photospline/cinter/splinetable.h>
#include <sys/resource.h>
#include <sys/stat.h>
#include <sys/wait.h>
#include "common/spec.hpp"
#include <fcntl.h>

using namespace vf;

namespace {

std::string workdir() {
  static std::string d;
  if (d.empty()) { mkdir("/verif/build/tmp", 0777); d = "/verif/build/tmp/c08-" + std::to_string(getpid()); mkdir(d.c_str(), 0777); }
  return d;
}

// what the disk reader makes of a file: 0 rejected, 1 loads equal, 2 loads DIFFERENT
int classify(const std::string& path, const Table& orig) {
  Table t;
  try { t.read_fits(path); } catch (std::exception&) { return 0; }
  if (!(t == orig)) {
    if (getenv("VF_VERBOSE")) {
      fprintf(stderr, "DIFF ndim %u/%u\n", t.get_ndim(), orig.get_ndim());
      for (uint32_t d = 0; d < t.get_ndim() && d < orig.get_ndim(); d++) {
        fprintf(stderr, " dim %u order %u/%u nknots %lu/%lu knots:", d, t.get_order(d), orig.get_order(d), (unsigned long)t.get_nknots(d), (unsigned long)orig.get_nknots(d));
        for (uint64_t i = 0; i < t.get_nknots(d) && i < 8; i++) fprintf(stderr, " %g", t.get_knot(d, i));
        fprintf(stderr, " | ");
        for (uint64_t i = 0; i < orig.get_nknots(d) && i < 8; i++) fprintf(stderr, " %g", orig.get_knot(d, i));
        fprintf(stderr, "\n");
      }
      fprintf(stderr, " coeff0 %g/%g\n", t.get_coefficients()[0], orig.get_coefficients()[0]);
    }
    return 2;
  }
  if (t.get_naux_values() != orig.get_naux_values()) return 2;
  return 1;
}

struct Cut { size_t op; size_t bytes; };  // state = ops [0,op) applied fully + first `bytes` bytes of op `op`

CaseResult body(Chooser& ch, Stats* st) {
  CaseResult r;
  QuietStderr q;
  // ---- table: 1..5 dims, from one FITS block to a few hundred
  SpecOpts so; so.max_ndim = 5; so.max_terms = 1500;
  int size_class = (int)ch.draw(0, 9);
  // (generator version 2: more tables beyond cfitsio's 40-block buffer pool, where rewriting an early block forces
  //  dirty buffers out - the situation in which write errors have been swallowed)
  if (gen_version() >= 2 && size_class >= 7) size_class = 9;
  so.max_coeffs = size_class < 6 ? 600 : (size_class < 9 ? 20000 : 220000);
  if (size_class >= 6) so.ko.extra_max = size_class == 9 ? 40 : 12;
  TableSpec s = gen_spec(ch, so);
  if (size_class == 9) {  // several hundred blocks: grow the axes until the coefficient image alone spans > 70 blocks
    uint64_t want = gen_version() >= 2 ? 30000 + ch.draw(0, 90000) : 50000 + ch.draw(0, 150000);
    for (size_t d = 0; s.ncoeff() < want; d = (d + 1) % s.ndim()) { auto& k = s.dims[d].knots; double step = k.back() - k[k.size() - 2]; k.push_back(k.back() + (step > 0 ? step : 1.0)); }
    for (auto& d : s.dims) { d.ext_lo = d.knots[d.order]; d.ext_hi = d.knots[d.knots.size() - d.order - 1]; }
    gen_coeffs(ch, s);
  }
  int naux = (int)ch.draw(0, 20);
  // enough keys that the header outgrows its block(s): cfitsio then has to make room by moving what follows
  if (gen_version() >= 2 && ch.coin(1, 3)) naux = 14 + (int)ch.draw(0, 50);
  for (int i = 0; i < naux; i++) s.aux.push_back({"AUX" + std::to_string(i), "value number " + std::to_string(i)});
  Table T;
  try { build_p1(T, s); } catch (std::exception& e) { r.fail = std::string("harness: cannot build table: ") + e.what(); return r; }
  bool use_c = ch.coin(1, 5);
  std::string target = workdir() + "/target.fits", cutp = workdir() + "/cut.fits";
  unlink(target.c_str());
  auto do_write = [&](const std::string& p) -> bool {  // true = writer reported success
    if (use_c) { struct splinetable ct; ct.data = &T; return writesplinefitstable(p.c_str(), &ct) == 0; }
    try { T.write_fits(p); return true; } catch (std::exception&) { return false; }
  };
  // ---- 1. recorded clean run
  c08::State& g = c08::state();
  g.reset(target); g.active = true; g.record = true;
  bool ok = do_write(target);
  g.active = false;
  std::vector<c08::Op> trace = std::move(g.trace);
  long nops = g.nops; int opens = g.opens, closes = g.closes;
  std::ostringstream js;
  js << "{\"spec\":" << s.json(4) << ",\"naux\":" << naux << ",\"via\":" << jstr(use_c ? "C" : "C++") << ",\"trace_ops\":" << trace.size();
  if (!ok) { r.fail = "writer failed on a valid table without any injected fault"; r.json = js.str() + "}"; return r; }
  if (opens != closes) { r.fail = "file opened " + std::to_string(opens) + " times but closed " + std::to_string(closes) + " times"; r.json = js.str() + "}"; return r; }
  if (classify(target, T) != 1) { r.fail = "writer reported success but the file does not read back equal"; r.json = js.str() + "}"; return r; }
  struct stat sb; stat(target.c_str(), &sb);
  long long fsize = sb.st_size;
  js << ",\"file_bytes\":" << fsize;
  uint64_t th = s.hash();
  if (st) { st->label("tables"); st->label("ndim:" + std::to_string(s.ndim())); st->label(fsize <= 6 * 2880 ? "size:small" : fsize <= 60 * 2880 ? "size:medium" : "size:large(>60 blocks)"); st->label(use_c ? "via:C" : "via:C++"); if (naux >= 17) st->label("aux>=17(header_overflows_a_block)"); }
  // ---- 2. crash points
  {
    std::vector<Cut> cuts;
    size_t nwrites = 0;
    // a writer that builds the file under another name and renames it into place: until the rename has happened
    // the target does not exist (nothing to load); the bytes count for the target only from then on
    size_t rename_at = trace.size();
    for (size_t k = 0; k < trace.size(); k++) if (trace[k].kind == c08::OP_RENAME) { rename_at = k; break; }
    bool has_rename = rename_at < trace.size();
    for (size_t k = 0; k < trace.size(); k++) {
      cuts.push_back({k, 0});
      if (trace[k].kind != c08::OP_WRITE) continue;
      nwrites++;
      size_t L = trace[k].data.size(); long long off = trace[k].offset;
      std::vector<size_t> in;
      for (long long b = (off / 2880) * 2880; b <= off + (long long)L + 2880; b += 2880) for (int d = -1; d <= 1; d++) { long long c = b + d - off; if (c > 0 && c < (long long)L) in.push_back((size_t)c); }
      for (long long b = 4096; b < (long long)L; b += 4096) for (int d = -1; d <= 1; d++) { long long c = b + d; if (c > 0 && c < (long long)L) in.push_back((size_t)c); }
      int nr = L > 1 ? (int)std::min<size_t>(6, L - 1) : 0;
      for (int i = 0; i < nr; i++) in.push_back(1 + ch.draw(0, L - 2));
      std::sort(in.begin(), in.end()); in.erase(std::unique(in.begin(), in.end()), in.end());
      // bound the work per write
      if (in.size() > 64) { std::vector<size_t> keep; for (size_t i = 0; i < in.size(); i += in.size() / 64 + 1) keep.push_back(in[i]); in.swap(keep); }
      for (size_t c : in) cuts.push_back({k, c});
    }
    cuts.push_back({trace.size(), 0});
    // incremental replay of the trace into the cut file
    int fd = open(cutp.c_str(), O_CREAT | O_TRUNC | O_RDWR, 0666);
    if (fd < 0) { r.fail = "harness: cannot create cut file"; r.json = js.str() + "}"; return r; }
    size_t applied_op = 0, applied_bytes = 0; bool exists = false;
    auto advance_to = [&](const Cut& c) {
      while (applied_op < c.op || (applied_op == c.op && applied_bytes < c.bytes)) {
        const c08::Op& o = trace[applied_op];
        if (o.kind == c08::OP_WRITE) {
          size_t upto = applied_op < c.op ? o.data.size() : c.bytes;
          if (upto > applied_bytes) { ssize_t w = pwrite(fd, o.data.data() + applied_bytes, upto - applied_bytes, o.offset + (long long)applied_bytes); (void)w; applied_bytes = upto; }
          if (applied_op < c.op) { applied_op++; applied_bytes = 0; } else break;
        } else {
          if (o.kind == c08::OP_TRUNCATE) { int e = ftruncate(fd, o.len); (void)e; }
          if (o.kind == c08::OP_OPEN) { exists = true; }
          if (o.kind == c08::OP_REMOVE) { int e = ftruncate(fd, 0); (void)e; exists = false; }
          applied_op++; applied_bytes = 0;
        }
      }
    };
    long loaded_equal = 0, rejected = 0;
    for (const Cut& c : cuts) {
      advance_to(c);
      if (!exists) continue;
      if (has_rename && c.op <= rename_at) { if (st) st->label("cut:target_absent_before_rename"); rejected++; continue; }
      int cls = classify(cutp, T);
      struct stat cb; fstat(fd, &cb);
      bool inside = cb.st_size > 0 && cb.st_size < fsize;
      if (st) {
        st->label(c.bytes ? "cut:byte_granularity" : "cut:operation_boundary");
        st->label(cls == 0 ? "cut:rejected" : "cut:loads_equal");
        if (inside) { Hasher h; h.add(th); h.add(c.op); h.add(c.bytes); h.add(1); st->nontriv(h.h); }
      }
      if (cls == 0) rejected++; else if (cls == 1) loaded_equal++;
      if (cls == 2) {
        r.fail = "a file cut after operation " + std::to_string(c.op) + " (+" + std::to_string(c.bytes) + " bytes of the next write; " + std::to_string((long long)cb.st_size) + " of " +
                 std::to_string(fsize) + " bytes on disk) loads as a table that differs from the one being written";
        break;
      }
    }
    close(fd);
    js << ",\"cuts\":" << cuts.size() << ",\"cuts_rejected\":" << rejected << ",\"cuts_equal\":" << loaded_equal;
    (void)nwrites;
  }
  unlink(cutp.c_str());
  // ---- 3. single failing operation, every position
  if (r.fail.empty()) {
    static const int errs[] = {28 /*ENOSPC*/, 5 /*EIO*/, 27 /*EFBIG*/, 122 /*EDQUOT*/};
    std::vector<long> ks;
    if (nops <= 300) for (long k = 1; k <= nops; k++) ks.push_back(k);
    else { for (long k = 1; k <= 40; k++) ks.push_back(k); for (long k = nops - 40; k <= nops; k++) ks.push_back(k); for (int i = 0; i < 220; i++) ks.push_back(41 + (long)ch.draw(0, nops - 82)); std::sort(ks.begin(), ks.end()); ks.erase(std::unique(ks.begin(), ks.end()), ks.end()); }
    long reported_ok = 0, reported_fail = 0;
    // every position is tried with a transient and with a persistent failure when the trace is short enough
    std::vector<std::pair<long, int>> plan;  // (position, 0 any variant | 1 transient | 2 persistent)
    for (long k : ks) { if (gen_version() >= 2 && nops <= 200) { plan.push_back({k, 1}); plan.push_back({k, 2}); } else plan.push_back({k, 0}); }
    for (auto& pk : plan) {
      long k = pk.first;
      int variant = pk.second == 0 ? (int)ch.draw(0, 3) : (pk.second == 1 ? (int)ch.draw(0, 1) : 2 + (int)ch.draw(0, 1));  // 0 single/zero, 1 single/partial, 2 sticky/zero, 3 sticky/partial
      unlink(target.c_str());
      g.reset(target); g.active = true; g.fail_at = k; g.sticky = variant >= 2; g.partial_bytes = (variant & 1) ? 1 + ch.draw(0, 2000) : 0; g.err = errs[ch.draw(0, 3)];
      bool okk = do_write(target);
      g.active = false;
      bool injected = g.failed; c08::OpKind fk = g.failed_kind; int op2 = g.opens, cl2 = g.closes;
      bool exists = access(target.c_str(), F_OK) == 0;
      int cls = exists ? classify(target, T) : 0;
      if (st) {
        st->label(std::string("fault:") + (injected ? c08::op_name(fk) : "not_reached")); st->label(okk ? "fault:writer_reported_success" : "fault:writer_reported_failure");
        if (injected) { Hasher h; h.add(th); h.add(k); h.add(variant); h.add(2); st->nontriv(h.h); }
      }
      if (okk) reported_ok++; else reported_fail++;
      std::string ctx = "failing stdio operation #" + std::to_string(k) + " (" + (injected ? c08::op_name(fk) : "none") + ", errno " + std::to_string(g.err) + (g.sticky ? ", persistent" : ", once") + ")";
      if (getenv("VF_VERBOSE") && ((okk && cls != 1) || (!okk && cls == 2))) {
        long idx = 0;
        for (auto& o : trace) { idx++; if (labs(idx - k) <= 3) fprintf(stderr, "TRACE op#%ld %s off=%lld len=%zu\n", idx, c08::op_name(o.kind), o.offset, o.data.size()); }
        fprintf(stderr, "TRACE total ops %zu, nops in faulty run %ld\n", trace.size(), g.nops);
      }
      if (op2 != cl2) { r.fail = ctx + ": file opened " + std::to_string(op2) + " times but closed " + std::to_string(cl2) + " times"; break; }
      if (okk && cls != 1) { r.fail = ctx + ": writer reported success but the file " + (exists ? (cls == 0 ? "is rejected by the reader" : "loads as a different table") : "does not exist"); break; }
      if (!okk && cls == 2) { r.fail = ctx + ": the file left behind loads as a table that differs from the one being written"; break; }
    }
    js << ",\"fault_positions\":" << ks.size() << ",\"fault_runs\":" << plan.size() << ",\"faults_reported_ok\":" << reported_ok << ",\"faults_reported_fail\":" << reported_fail;
  }
  // ---- 4. kernel-side size limit (failure surfaces at flush/close time)
  if (r.fail.empty()) {
    std::vector<long long> limits;
    for (int i = 0; i < 10; i++) { long long b = (long long)ch.draw(0, (uint64_t)(fsize / 2880)) * 2880 + ch.range(-1, 1); if (b > 0 && b < fsize) limits.push_back(b); }
    for (int i = 0; i < 6; i++) { long long b = 1 + (long long)ch.draw(0, (uint64_t)fsize - 2); limits.push_back(b); }
    limits.push_back(fsize - 1); limits.push_back(fsize);
    for (long long L : limits) {
      unlink(target.c_str());
      ForkResult fr = fork_run([&]() -> std::string {
        struct rlimit rl; rl.rlim_cur = rl.rlim_max = (rlim_t)L; setrlimit(RLIMIT_FSIZE, &rl); signal(SIGXFSZ, SIG_IGN);
        return do_write(target) ? "OK" : "FAILED";
      }, 120);
      if (fr.timeout || (fr.why != "OK" && fr.why != "FAILED")) { r.fail = "writer under RLIMIT_FSIZE=" + std::to_string(L) + " died or hung: " + fr.why; break; }
      bool okk = fr.why == "OK";
      bool exists = access(target.c_str(), F_OK) == 0;
      int cls = exists ? classify(target, T) : 0;
      if (st) { st->label(okk ? "rlimit:writer_reported_success" : "rlimit:writer_reported_failure"); if (L < fsize) { Hasher h; h.add(th); h.add((uint64_t)L); h.add(3); st->nontriv(h.h); } }
      if (okk && cls != 1) { r.fail = "file size limit " + std::to_string(L) + " of " + std::to_string(fsize) + " bytes: writer reported success but the file " + (cls == 0 ? "is rejected by the reader" : "loads as a different table"); break; }
      if (!okk && cls == 2) { r.fail = "file size limit " + std::to_string(L) + ": the file left behind loads as a different table"; break; }
      if (!okk && L >= fsize) { r.fail = "writer failed although the size limit " + std::to_string(L) + " admits the complete file"; break; }
    }
  }
  unlink(target.c_str());
  js << "}";
  r.json = js.str();
  if (st) st->sample(r.json);
  return r;
}

// ---- kernel-level faults --------------------------------------------------------------------
// The stdio interposer above fails library calls (fwrite, fflush, fclose).  A no-space error can also surface in a
// write(2) that stdio issues on its own - when fseek or fclose drains the buffer - and is then reported through a
// different return value.  Here the write is done by a helper process (this executable, --helper) under strace's
// syscall fault injection: the N-th write(2) fails with ENOSPC / EIO / EDQUOT, once or from then on, for every N.
std::string self_exe() { char b[4096]; ssize_t n = readlink("/proc/self/exe", b, sizeof b - 1); if (n <= 0) return ""; b[n] = 0; return b; }

int run_cmd(const std::vector<std::string>& argv, unsigned timeout_s = 120) {
  fflush(stdout); fflush(stderr);
  pid_t pid = fork();
  if (pid < 0) return -1;
  if (pid == 0) {
    std::vector<char*> a; for (auto& x : argv) a.push_back(const_cast<char*>(x.c_str())); a.push_back(nullptr);
    int dn = open("/dev/null", O_WRONLY); if (dn >= 0) { dup2(dn, 1); dup2(dn, 2); }
    alarm(timeout_s);
    execvp(a[0], a.data());
    _exit(127);
  }
  int stt = 0; if (waitpid(pid, &stt, 0) < 0) return -1;
  return WIFEXITED(stt) ? WEXITSTATUS(stt) : 128 + WTERMSIG(stt);
}

int helper_main(const char* src, const char* dst, bool use_c) {  // exit 0: writer reported success, 3: failure
  Table T;
  { QuietStderr q; try { T.read_fits(src); } catch (std::exception&) { return 4; } }
  QuietStderr q;
  if (use_c) { struct splinetable ct; ct.data = &T; return writesplinefitstable(dst, &ct) == 0 ? 0 : 3; }
  try { T.write_fits(dst); return 0; } catch (std::exception&) { return 3; }
}

bool strace_usable() {
  static int cached = -1;
  if (cached < 0) cached = run_cmd({"strace", "-o", "/dev/null", "-e", "trace=write", "-e", "inject=write:error=ENOSPC:when=65535", "true"}) == 0 ? 1 : 0;
  return cached == 1;
}

CaseResult body_kernel(Chooser& ch, Stats* st) {
  CaseResult r;
  QuietStderr q;
  if (!strace_usable()) { if (st) { st->label("strace_unusable(skipped)"); st->notes["kernel_faults"] = "strace fault injection is not usable in this environment; sub-property skipped"; } r.json = "{\"skipped\":\"strace unusable\"}"; return r; }
  SpecOpts so; so.max_ndim = 5; so.max_terms = 1500;
  int size_class = (int)ch.draw(0, 5);
  so.max_coeffs = size_class < 3 ? 600 : (size_class < 5 ? 8000 : 40000);
  if (size_class >= 3) so.ko.extra_max = 12;
  TableSpec s = gen_spec(ch, so);
  int naux = (int)ch.draw(0, 20);
  if (ch.coin(1, 3)) naux = 14 + (int)ch.draw(0, 50);
  for (int i = 0; i < naux; i++) s.aux.push_back({"AUX" + std::to_string(i), "value number " + std::to_string(i)});
  Table T;
  try { build_p1(T, s); } catch (std::exception& e) { r.fail = std::string("harness: cannot build table: ") + e.what(); return r; }
  bool use_c = ch.coin(1, 5);
  std::string src = workdir() + "/ksrc.fits", dst = workdir() + "/kdst.fits", tr = workdir() + "/ktrace.txt", exe = self_exe();
  { std::vector<unsigned char> bytes = spec_to_fits(s); FILE* f = fopen(src.c_str(), "wb"); if (!f) { r.fail = "harness: cannot write the source file"; return r; } fwrite(bytes.data(), 1, bytes.size(), f); fclose(f); }
  std::ostringstream js;
  js << "{\"spec\":" << s.json(4) << ",\"naux\":" << naux << ",\"via\":" << jstr(use_c ? "C" : "C++");
  std::vector<std::string> helper = {exe, "--helper", src, dst, use_c ? "c" : "cpp"};
  // undisturbed run under strace: how many write(2) calls?
  unlink(dst.c_str());
  { std::vector<std::string> a = {"strace", "-o", tr, "-e", "trace=write"}; a.insert(a.end(), helper.begin(), helper.end());
    int rc = run_cmd(a);
    if (rc != 0) { r.fail = "writer failed on a valid table without any injected fault (helper exit " + std::to_string(rc) + ")"; r.json = js.str() + "}"; unlink(src.c_str()); return r; } }
  long nwrites = 0; { FILE* f = fopen(tr.c_str(), "r"); char line[512]; if (f) { while (fgets(line, sizeof line, f)) if (!strncmp(line, "write(", 6)) nwrites++; fclose(f); } unlink(tr.c_str()); }
  if (classify(dst, T) != 1) { r.fail = "writer reported success but the file does not read back equal"; r.json = js.str() + "}"; unlink(src.c_str()); return r; }
  js << ",\"write_syscalls\":" << nwrites;
  uint64_t th = s.hash();
  if (st) { st->label("tables"); st->label("ndim:" + std::to_string(s.ndim())); st->label(use_c ? "via:C" : "via:C++"); if (naux >= 17) st->label("aux>=17(header_overflows_a_block)"); st->maxi("max_write_syscalls", (double)nwrites); }
  static const char* errs[] = {"ENOSPC", "EIO", "EDQUOT", "EFBIG"};
  std::vector<long> ks;
  if (nwrites <= 60) for (long k = 1; k <= nwrites; k++) ks.push_back(k);
  else { for (long k = 1; k <= 20; k++) ks.push_back(k); for (long k = nwrites - 20; k <= nwrites; k++) ks.push_back(k); for (int i = 0; i < 20; i++) ks.push_back(21 + (long)ch.draw(0, nwrites - 42)); std::sort(ks.begin(), ks.end()); ks.erase(std::unique(ks.begin(), ks.end()), ks.end()); }
  long runs = 0, ok_reports = 0;
  for (long k : ks) for (int persistent = 0; persistent < 2 && r.fail.empty(); persistent++) {
    const char* en = errs[ch.draw(0, 3)];
    unlink(dst.c_str());
    std::vector<std::string> a = {"strace", "-o", "/dev/null", "-e", "trace=write", "-e", std::string("inject=write:error=") + en + ":when=" + std::to_string(k) + (persistent ? "+" : "")};
    a.insert(a.end(), helper.begin(), helper.end());
    int rc = run_cmd(a);
    runs++;
    std::string ctx = std::string("write(2) #") + std::to_string(k) + " of " + std::to_string(nwrites) + " failing with " + en + (persistent ? " from then on" : " once");
    if (rc != 0 && rc != 3) { r.fail = ctx + ": the writing process died or hung (exit status " + std::to_string(rc) + ")"; break; }
    bool okk = rc == 0; if (okk) ok_reports++;
    bool exists = access(dst.c_str(), F_OK) == 0;
    int cls = exists ? classify(dst, T) : 0;
    if (st) { st->label(okk ? "kfault:writer_reported_success" : "kfault:writer_reported_failure"); st->label(persistent ? "kfault:persistent" : "kfault:once"); Hasher h; h.add(th); h.add(k); h.add(persistent); h.add(7); st->nontriv(h.h); }
    if (okk && cls != 1) { r.fail = ctx + ": writer reported success but the file " + (exists ? (cls == 0 ? "is rejected by the reader" : "loads as a different table") : "does not exist"); break; }
    if (!okk && cls == 2) { r.fail = ctx + ": the file left behind loads as a table that differs from the one being written"; break; }
  }
  unlink(dst.c_str()); unlink(src.c_str());
  js << ",\"fault_runs\":" << runs << ",\"reported_success\":" << ok_reports << "}";
  r.json = js.str();
  if (st) st->sample(r.json);
  return r;
}

}  // namespace

int main(int argc, char** argv) {
  if (argc >= 5 && !strcmp(argv[1], "--helper")) return helper_main(argv[2], argv[3], argc >= 6 && !strcmp(argv[5], "c"));
  Options o = parse_options(argc, argv);
  Prop a{"write_faults", body, 1.0}, b{"kernel_write_faults", body_kernel, 0.4};
  int rc = run_main(o, "C08", {a, b});
  rmdir(workdir().c_str());
  return rc;
}
