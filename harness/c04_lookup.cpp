// C04 — center lookup accepts exactly the knot range, brackets the point and terminates.
// Oracle: linear scan over the spec's knots.  Runs fork-isolated (a non-terminating binary
// search is a failing case through the watchdog).
#include "common/vf_rc.hpp"
#include "common/libtable.hpp"
#include "common/producers.hpp"

using namespace vf;

namespace {

// coordinate palette for lookups: knots, neighbours, outside, infinities, zeros, denormals, random
double gen_coord_any(Chooser& ch, const DimSpec& d, std::string& kind) {
  const auto& k = d.knots; int n = (int)k.size();
  switch (ch.draw(0, 11)) {
    case 0: kind = "on_knot"; return k[ch.draw(0, n - 1)];
    case 1: kind = "knot_plus_ulp"; return nextafter(k[ch.draw(0, n - 1)], INFINITY);
    case 2: kind = "knot_minus_ulp"; return nextafter(k[ch.draw(0, n - 1)], -INFINITY);
    case 3: { kind = "between"; int i = (int)ch.draw(0, n - 2); return k[i] + (k[i + 1] - k[i]) * (double)(1 + ch.draw(0, 6)) / 8.0; }
    case 4: kind = "below_range"; return k[0] - fabs(k[0]) * (double)ch.draw(0, 3) - (k[n - 1] - k[0]) * (double)(1 + ch.draw(0, 3)) / 2.0;
    case 5: kind = "above_range"; return k[n - 1] + fabs(k[n - 1]) * (double)ch.draw(0, 3) + (k[n - 1] - k[0]) * (double)(1 + ch.draw(0, 3)) / 2.0;
    case 6: kind = "infinite"; return ch.coin(1, 2) ? INFINITY : -INFINITY;
    case 7: kind = "zero"; return ch.coin(1, 2) ? 0.0 : -0.0;
    case 8: kind = "denormal"; return (ch.coin(1, 2) ? 1 : -1) * ldexp((double)(1 + ch.draw(0, 1000)), -1074);
    case 9: kind = "first_knot"; return k[0];
    case 10: kind = "last_knot"; return k[n - 1];
    default: {
      kind = "random";
      int e = ch.range(-1074, 1023); double m = 1.0 + (double)ch.draw(0, 1u << 20) / (double)(1u << 20);
      return (ch.coin(1, 2) ? 1 : -1) * ldexp(m, e);
    }
  }
}

std::string check_center(const DimSpec& d, double x, int c) {
  const auto& k = d.knots; int n = (int)k.size(); int order = (int)d.order;
  int hi = n - order - 2;
  std::ostringstream m;
  if (c < order || c > hi) { m << "center " << c << " outside [" << order << "," << hi << "] for x=" << jnum(x); return m.str(); }
  double kl = k[order], ku = k[n - order - 1];
  if (x < kl) { if (c != order) { m << "x=" << jnum(x) << " below the supported range but center " << c << " != order"; return m.str(); } return ""; }
  if (x > ku) { if (c != hi) { m << "x=" << jnum(x) << " above the supported range but center " << c << " != nknots-order-2"; return m.str(); } return ""; }
  if (x == ku) {
    // the last supported interval whose right end is x (zero-width intervals of a repeated knot may be skipped)
    if (!(k[c] <= x && x == k[c + 1])) { m << "x equals the upper support end " << jnum(x) << " but center " << c << " is not an interval ending there"; return m.str(); }
    return "";
  }
  if (!(k[c] <= x && x < k[c + 1])) { m << "center " << c << " does not bracket x=" << jnum(x) << " (knot[c]=" << jnum(k[c]) << ", knot[c+1]=" << jnum(k[c + 1]) << ")"; return m.str(); }
  return "";
}

CaseResult body_lookup(Chooser& ch, Stats* st) {
  CaseResult r;
  SpecOpts so; so.max_ndim = 3; so.ko.extreme = true; so.max_coeffs = 4000;
  TableSpec s; std::unique_ptr<Table> t; std::string producer;
  std::string err = produce_table(ch, so, s, t, producer, 0 /* reader path; the lookup does not depend on the producer */);
  std::ostringstream js;
  js << "{\"spec\":" << s.json(4) << ",\"points\":[";
  if (!err.empty()) { r.fail = err; r.json = js.str() + "]}"; return r; }
  size_t nd = s.ndim();
  bool special_knots = s.knot_class.find("repeat") != std::string::npos || s.knot_class.find("clamped") != std::string::npos || s.knot_class.find("extreme") != std::string::npos;
  if (st) { st->label("ndim:" + std::to_string(nd)); if (special_knots) st->label("knots:repeated_or_extreme"); if (s.knot_class.find("extreme") != std::string::npos) st->label("knots:extreme"); }
  auto evf = t->get_evaluator<float>(); auto evd = t->get_evaluator<double>();
  for (int p = 0; p < 48 && r.fail.empty(); p++) {
    std::vector<double> x(nd); std::vector<std::string> kinds(nd);
    bool inside = true, nontrivial = special_knots;
    // bias towards success in all but one dimension so multi-d tables reach the evaluation comparison
    for (size_t d = 0; d < nd; d++) {
      if (nd > 1 && ch.coin(1, 2)) { int kk; x[d] = gen_coord_inside(ch, s.dims[d], &kk); kinds[d] = coord_kind_name(kk); if (kk != 0) nontrivial = true; }
      else { x[d] = gen_coord_any(ch, s.dims[d], kinds[d]); if (kinds[d] != "between" && kinds[d] != "random") nontrivial = true; }
      if (avoid_known_point(s.dims[d], x[d])) { kinds[d] = "knot_plus_ulp"; if (st) st->excluded_known++; }
      if (!(x[d] > s.dims[d].knots.front() && x[d] <= s.dims[d].knots.back())) inside = false;
    }
    if (p) js << ",";
    js << jarr(x);
    std::vector<int> c(nd, -777);
    bool ok = t->searchcenters(x.data(), c.data());
    if (st) { for (auto& k : kinds) st->label("coord:" + k); st->label(ok ? "lookup_ok" : "lookup_refused"); }
    if (st && nontrivial) { Hasher h; h.add(s.hash()); for (double v : x) h.addd(v); st->nontriv(h.h); }
    if (ok != inside) { r.fail = std::string("lookup ") + (ok ? "succeeded" : "failed") + " but the point is " + (inside ? "inside" : "outside") + " (first knot, last knot] : x=" + jarr(x); break; }
    double vcall = (*t)(x.data());
    // the evaluator objects have the same lookup and the same convenience call operator
    std::vector<int> cf(nd, -777), cd(nd, -777);
    bool okf = evf.searchcenters(x.data(), cf.data()), okd = evd.searchcenters(x.data(), cd.data());
    double vcallf = evf(x.data(), 0), vcalld = evd(x.data(), 0);
    if (okf != ok || okd != ok) { r.fail = "lookup through an evaluator object " + std::string(okf != ok ? (okf ? "succeeded" : "failed") : (okd ? "succeeded" : "failed")) + " where the table's lookup did the opposite: x=" + jarr(x); break; }
    if (!ok) {
      if (!(vcall == 0.0)) { r.fail = "call operator returned " + jnum(vcall) + " instead of 0 after a failed lookup"; }
      else if (!(vcallf == 0.0) || !(vcalld == 0.0)) { r.fail = "call operator of an evaluator object returned " + jnum(!(vcallf == 0.0) ? vcallf : vcalld) + " instead of 0 after a failed lookup"; }
      continue;
    }
    if (cf != c || cd != c) { r.fail = "lookup through an evaluator object returned other centers than the table's lookup: x=" + jarr(x); break; }
    for (size_t d = 0; d < nd && r.fail.empty(); d++) {
      std::string e = check_center(s.dims[d], x[d], c[d]);
      if (!e.empty()) r.fail = "dim " + std::to_string(d) + ": " + e;
    }
    if (!r.fail.empty()) break;
    double v = t->ndsplineeval(x.data(), c.data(), 0);
    if (!same_bits(v, vcall) && !(std::isnan(v) && std::isnan(vcall))) r.fail = "call operator " + jnum(vcall) + " differs from ndsplineeval " + jnum(v);
    double vf = evf.ndsplineeval(x.data(), c.data(), 0), vd = evd.ndsplineeval(x.data(), c.data(), 0);
    if (r.fail.empty() && !same_bits(vf, vcallf) && !(std::isnan(vf) && std::isnan(vcallf))) r.fail = "call operator of the float evaluator " + jnum(vcallf) + " differs from its ndsplineeval " + jnum(vf);
    if (r.fail.empty() && !same_bits(vd, vcalld) && !(std::isnan(vd) && std::isnan(vcalld))) r.fail = "call operator of the double evaluator " + jnum(vcalld) + " differs from its ndsplineeval " + jnum(vd);
  }
  js << "]}";
  r.json = js.str();
  if (st) st->sample(r.json);
  return r;
}

}  // namespace

int main(int argc, char** argv) {
  Options o = parse_options(argc, argv);
  Prop p{"lookup", body_lookup, 1.0, 1 /* isolate */, 2048, 10};
  return run_main(o, "C04", {p});
}
