// C13 — fit rejects inconsistent arguments instead of corrupting memory.
// A valid small fit problem is damaged by 1..3 invalidations from the property's catalogue (or
// none); the call runs in a forked child under ASan/UBSan.  Listed inconsistencies must throw
// (C wrapper: non-zero) and leave the table unchanged and reusable; a penalty order above the
// spline order is either rejected or acts as a vanishing penalty; valid arguments must not throw.
#include <cfloat>
#include "common/vf_rc.hpp"
#include "common/fitgen.hpp"
#include <photospline/cinter/splinetable.h>

using namespace vf;

namespace {

struct Args {
  std::vector<std::vector<unsigned>> idx; std::vector<double> y; std::vector<unsigned> ranges;
  std::vector<double> weights, smooth; std::vector<std::vector<double>> coords, knots; std::vector<uint32_t> order, porder; uint32_t monodim;
};

Args from_problem(const FitProblem& p, uint32_t monodim) {
  Args a; a.idx = p.idx; a.y = p.y; a.weights = p.w; a.coords = p.coords; a.knots = p.knots; a.order = p.order; a.porder = p.porder; a.smooth = p.smooth; a.monodim = monodim;
  for (uint32_t d = 0; d < p.ndim; d++) a.ranges.push_back((unsigned)p.coords[d].size());
  return a;
}

// call fit with the (possibly inconsistent) arguments; returns true if it threw
bool call_fit(Table& t, const Args& a, bool via_c, std::string& what) {
  size_t nd = a.idx.size();
  photospline::ndsparse nd_(std::max<size_t>(1, a.y.size()), nd);
  std::vector<unsigned> I(nd);
  for (size_t r = 0; r < a.y.size(); r++) { for (size_t d = 0; d < nd; d++) I[d] = a.idx[d][r]; nd_.insertEntry(a.y[r], I.data()); }
  for (size_t d = 0; d < nd; d++) nd_.ranges[d] = a.ranges[d];
  if (via_c) {
    struct splinetable ct; ct.data = &t;
    std::vector<const double*> cp, kp; std::vector<uint64_t> nk;
    for (size_t d = 0; d < nd; d++) { cp.push_back(a.coords[d].data()); kp.push_back(a.knots[d].data()); nk.push_back(a.knots[d].size()); }
    int rc = splinetable_glamfit(&ct, &nd_, a.weights.data(), cp.data(), a.order.data(), kp.data(), nk.data(), a.smooth.data(), a.porder.data(), a.monodim, false);
    what = "C wrapper returned " + std::to_string(rc);
    return rc != 0;
  }
  try { t.fit(nd_, a.weights, a.coords, a.order, a.knots, a.smooth, a.porder, a.monodim, false); }
  catch (std::exception& e) { what = e.what(); return true; }
  return false;
}

CaseResult body(Chooser& ch, Stats* st) {
  CaseResult r;
  QuietStderr q;
  FitGenOpts fo; fo.max_ndim = 3; fo.max_order = 3; fo.max_coeff = 48; fo.max_rows = 400; fo.smoothing_zero_ok = false;
  FitProblem p = gen_fit_problem(ch, fo);
  uint32_t nd = p.ndim;
  uint32_t monodim = ch.coin(1, 4) ? (uint32_t)ch.draw(0, nd - 1) : Table::no_monodim;
  if (monodim != Table::no_monodim) for (uint32_t d = 0; d < nd; d++) if (p.order[d] == 0) monodim = Table::no_monodim;
  Args a = from_problem(p, monodim);
  // scalar (length-1) smoothing / penalty containers, as the C++ interface allows
  if (p.single_smooth) a.smooth.resize(1);
  if (p.single_porder) a.porder.resize(1);
  int ninv = ch.coin(1, 5) ? 0 : 1 + (int)ch.draw(0, 2);
  bool must_reject = false, penalty_above = false, c_ok = true;
  std::vector<std::string> applied;
  for (int k = 0; k < ninv; k++) {
    int kind = (int)ch.draw(0, 13);
    uint32_t d = (uint32_t)ch.draw(0, nd - 1);
    if (kind >= 6 && (d >= a.knots.size() || d >= a.coords.size() || d >= a.order.size() || a.porder.empty() || d >= a.ranges.size())) continue;  // an earlier invalidation removed that entry
    switch (kind) {
      case 0: { int m = (int)ch.draw(0, 2); if (m == 0) a.weights.push_back(1.0); else if (m == 1 && !a.weights.empty()) a.weights.pop_back(); else a.weights.clear(); applied.push_back("weights_length"); must_reject = true; c_ok = false; break; }
      case 1: { if (ch.coin(1, 2) || a.coords.empty()) a.coords.push_back(std::vector<double>{0.0, 1.0}); else a.coords.pop_back(); applied.push_back("coords_outer_length"); must_reject = true; c_ok = false; break; }
      case 2: { if (ch.coin(1, 2) || a.order.empty()) a.order.push_back(1); else a.order.pop_back(); applied.push_back("orders_length"); must_reject = true; c_ok = false; break; }
      case 3: { if (ch.coin(1, 2) || a.knots.empty()) a.knots.push_back(std::vector<double>{0.0, 1.0, 2.0, 3.0}); else a.knots.pop_back(); applied.push_back("knots_outer_length"); must_reject = true; c_ok = false; break; }
      case 4: { int m = (int)ch.draw(0, 2); if (m == 0) a.smooth.clear(); else if (m == 1) a.smooth.push_back(1.0); else if (nd >= 3) a.smooth.resize(2); else a.smooth.push_back(1.0); if (a.smooth.size() == 1 || a.smooth.size() == nd) break; applied.push_back("smoothing_length"); must_reject = true; c_ok = false; break; }
      case 5: { int m = (int)ch.draw(0, 2); if (m == 0) a.porder.clear(); else if (m == 1) a.porder.push_back(0); else if (nd >= 3) a.porder.resize(2); else a.porder.push_back(0); if (a.porder.size() == 1 || a.porder.size() == nd) break; applied.push_back("penalty_length"); must_reject = true; c_ok = false; break; }
      case 6: { if (a.y.empty()) break; size_t row = ch.draw(0, a.y.size() - 1); a.idx[d][row] = a.ranges[d] + (unsigned)ch.draw(0, 3); applied.push_back("index_beyond_range"); must_reject = true; break; }
      case 7: { a.ranges[d] = (unsigned)a.coords[d].size() + 1 + (unsigned)ch.draw(0, 5); applied.push_back("range_beyond_coords"); must_reject = true; c_ok = false; break; }
      case 8: { auto& k = a.knots[d]; if (k.size() < 2) break; int m = (int)ch.draw(0, 1); if (m == 0) std::swap(k[ch.draw(0, k.size() - 2)], k[k.size() - 1]); else std::reverse(k.begin(), k.end()); if (std::is_sorted(k.begin(), k.end())) break; applied.push_back("knots_unsorted"); must_reject = true; break; }
      case 9: { auto& k = a.knots[d]; uint32_t o = a.order[d]; size_t want[] = {(size_t)o + 1, (size_t)o, 1, 0}; k.resize(std::min(k.size(), want[ch.draw(0, 3)])); applied.push_back("too_few_knots"); must_reject = true; break; }
      case 10: { static const uint32_t big[] = {6, 50, 0x80000000u, 0xffffffffu}; a.order[d] = big[ch.draw(0, 3)]; if (a.knots[d].size() >= 2 * (uint64_t)a.order[d] + 2) break; applied.push_back("huge_order"); must_reject = true; break; }
      case 11: {
        if (a.porder.size() == 1) {  // shared penalty order: above the order of SOME dimension (preferably not the first one)
          uint32_t mn = a.order[0]; size_t which = 0; for (size_t e = 0; e < a.order.size(); e++) if (a.order[e] < mn) { mn = a.order[e]; which = e; }
          a.porder[0] = mn + 1 + (uint32_t)ch.draw(0, 1); applied.push_back(which == 0 ? "penalty_above_order" : "penalty_above_order_shared_later_dim");
        } else { a.porder[d < a.porder.size() ? d : 0] = a.order[d] + 1 + (uint32_t)ch.draw(0, 2); applied.push_back("penalty_above_order"); }
        penalty_above = true; break; }
      case 12: { static const uint32_t md[] = {0, 1, 0xfffffffeu, 0x80000000u, 0x7fffffffu, 1000, 0xfffffffeu, 0x80000001u}; uint32_t m = md[ch.draw(0, gen_version() >= 2 ? 7 : 2)]; a.monodim = m > 2000 ? m : nd + m; applied.push_back("monodim_out_of_range"); must_reject = true; break; }
      default: break;  // no-op draw
    }
  }
  // what the final argument set demands, derived from the arguments themselves (two invalidations may cancel)
  must_reject = false;
  if (a.weights.size() != a.y.size() || a.coords.size() != nd || a.order.size() != nd || a.knots.size() != nd) must_reject = true;
  if ((a.smooth.size() != 1 && a.smooth.size() != nd) || (a.porder.size() != 1 && a.porder.size() != nd)) must_reject = true;
  for (uint32_t d = 0; d < nd; d++) for (unsigned v : a.idx[d]) if (v >= a.ranges[d]) must_reject = true;
  if (a.coords.size() == nd) for (uint32_t d = 0; d < nd; d++) if (a.ranges[d] > a.coords[d].size()) must_reject = true;
  bool free_zone = false;  // enough knots for one basis function but not for a well-formed table: either outcome, but no corruption
  if (a.knots.size() == nd && a.order.size() == nd) for (uint32_t d = 0; d < nd; d++) {
    if (!std::is_sorted(a.knots[d].begin(), a.knots[d].end())) must_reject = true;
    if (a.knots[d].size() < (uint64_t)a.order[d] + 2) must_reject = true;
    else if (a.knots[d].size() < 2 * (uint64_t)a.order[d] + 2) free_zone = true;
  }
  if (a.monodim != Table::no_monodim && a.monodim >= nd) must_reject = true;
  penalty_above = false;
  if ((a.porder.size() == nd || a.porder.size() == 1) && a.order.size() == nd) for (uint32_t d = 0; d < nd; d++) if (a.porder[a.porder.size() == 1 ? 0 : d] > a.order[d]) penalty_above = true;
  bool via_c = c_ok && a.coords.size() == nd && ch.coin(1, 4);
  // the C interface requires smoothing/penalty arrays of length ndim
  if (a.smooth.size() != nd || a.porder.size() != nd || a.order.size() != nd || a.knots.size() != nd) via_c = false;
  std::ostringstream js;
  js << "{\"invalidations\":["; for (size_t i = 0; i < applied.size(); i++) js << (i ? "," : "") << jstr(applied[i]); js << "],\"via\":" << jstr(via_c ? "C" : "C++") << ",\"monodim\":" << (double)a.monodim << ",\"problem\":" << p.json(3) << "}";
  r.json = js.str();
  if (st) {
    st->label(applied.empty() ? "valid_arguments" : "invalid_arguments"); for (auto& s : applied) st->label("inv:" + s); if (via_c) st->label("via:C");
    if (applied.size() == 1) { Hasher h; h.adds(applied[0]); for (double v : p.y) h.addd(v); for (uint32_t d = 0; d < nd; d++) for (double k : p.knots[d]) h.addd(k); h.add(a.monodim); st->nontriv(h.h); }
    st->sample(r.json);
  }
  Table t;
  std::string what;
  bool threw = call_fit(t, a, via_c, what);
  if (must_reject) {
    if (!threw) { r.fail = "inconsistent arguments were accepted (" + jstr(applied.empty() ? "" : applied[0]) + (applied.size() > 1 ? ", ..." : "") + ")"; return r; }
    if (t.get_ndim() != 0) { r.fail = "table changed although fit rejected its arguments: " + what; return r; }
    // the table must still be usable: a valid fit succeeds and equals a fresh object's result
    Args good = from_problem(p, monodim);
    Table fresh; std::string w1, w2;
    bool t1 = call_fit(t, good, false, w1), t2 = call_fit(fresh, good, false, w2);
    if (t1 != t2 || (!t1 && (t.get_ncoeffs() != fresh.get_ncoeffs() || memcmp(t.get_coefficients(), fresh.get_coefficients(), fresh.get_ncoeffs() * 4) != 0))) { r.fail = "after a rejected call the table does not behave like a fresh one: " + w1; return r; }
    return r;
  }
  if (free_zone || (penalty_above && applied.size() != 1)) {  // outcome unconstrained; memory safety is judged by the sanitizers
    if (threw && t.get_ndim() != 0) r.fail = "table changed although fit threw";
    if (st) st->label("outcome_unconstrained");
    return r;
  }
  if (penalty_above && applied.size() == 1) {
    if (threw) { if (st) st->label("penalty_above_order:rejected"); if (t.get_ndim() != 0) r.fail = "table changed although fit rejected a penalty order above the spline order"; return r; }
    // accepted: must act as a vanishing penalty in that dimension
    Args ref = from_problem(p, monodim);
    if (ref.smooth.size() == 1) ref.smooth.assign(nd, ref.smooth[0]);
    for (uint32_t d = 0; d < nd; d++) if (a.porder[a.porder.size() == 1 ? 0 : d] > a.order[d]) ref.smooth[d] = 0;
    bool wellposed = true;
    { FitProblem p0 = p; for (uint32_t d = 0; d < nd; d++) if (a.porder[a.porder.size() == 1 ? 0 : d] > a.order[d]) p0.smooth[d] = 0; DenseSys S = assemble_reference(p0); std::vector<LD> L; if (!cholesky_ld(S.A, S.n, L) || !(cond_estimate(S.A, L, S.n) < 1e5L)) wellposed = false; }
    if (!wellposed || monodim != Table::no_monodim) { if (st) st->label("penalty_above_order:accepted_unchecked"); return r; }
    Table tr; std::string w;
    if (call_fit(tr, ref, false, w)) { r.fail = "reference fit with zero smoothing threw: " + w; return r; }
    float nrm = 0; for (uint64_t i = 0; i < tr.get_ncoeffs(); i++) nrm = std::max(nrm, fabsf(tr.get_coefficients()[i]));
    for (uint64_t i = 0; i < tr.get_ncoeffs(); i++) if (!(fabsf(t.get_coefficients()[i] - tr.get_coefficients()[i]) <= 1e-3f * nrm + 1e-6f)) { r.fail = "a penalty order above the spline order was accepted but does not act as a vanishing penalty (coefficient " + std::to_string(i) + ": " + jnum(t.get_coefficients()[i]) + " vs " + jnum(tr.get_coefficients()[i]) + ")"; return r; }
    if (st) st->label("penalty_above_order:accepted_vanishing");
    return r;
  }
  if (applied.empty() && threw) {
    // valid arguments must not be rejected; an ill-posed (singular) problem may legitimately fail in the solver
    DenseSys S = assemble_reference(p); std::vector<LD> L;
    if (cholesky_ld(S.A, S.n, L) && cond_estimate(S.A, L, S.n) < 1e6L) r.fail = "valid arguments were rejected: " + what;
  }
  return r;
}

}  // namespace

int main(int argc, char** argv) {
  Options o = parse_options(argc, argv);
  Prop a{"fit_arguments", body, 1.0, 1, 2048, 120};
  return run_main(o, "C13", {a});
}
