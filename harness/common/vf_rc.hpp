// vf_rc.hpp — rapidcheck back end + the common main() of rapidcheck-driven harness binaries.
//
// Two execution modes share one property body and one replay format:
//  * inline  (--isolate 0): the body draws through RcChooser while it executes (cheap; only the
//    draws that are needed).  A crash of the process kills the run; the driver then re-runs the
//    same worker in isolated mode so that the crash becomes an ordinary, shrinkable failing case.
//  * isolated (--isolate 1): rapidcheck generates a vector of raw words, the body runs in a
//    forked child over a ReplayChooser on those words (value = lo + word % span) under a
//    watchdog; verdict, statistics and the words actually consumed come back through a pipe.
//    Child death by signal / sanitizer exit / watchdog is a failing case.
#pragma once
#include "vf.hpp"
#include <rapidcheck.h>

extern "C" int __lsan_do_recoverable_leak_check() __attribute__((weak));

namespace vf {

// per-case leak detection (LeakSanitizer): non-zero if the case left unreachable heap blocks behind
inline bool leaked_now() { return __lsan_do_recoverable_leak_check && __lsan_do_recoverable_leak_check() != 0; }

struct RcChooser : Chooser {
  uint64_t raw(uint64_t lo, uint64_t hi) override {
    // inRange collapses towards lo at small sizes; pin the size so the whole range is
    // always reachable.  Shrinking still moves every draw towards lo.
    if (lo == 0 && hi == UINT64_MAX) {
      uint64_t a = *rc::gen::resize(rc::kNominalSize, rc::gen::inRange<uint64_t>(0, 1ULL << 32));
      uint64_t b = *rc::gen::resize(rc::kNominalSize, rc::gen::inRange<uint64_t>(0, 1ULL << 32));
      return (a << 32) | b;
    }
    if (hi == UINT64_MAX) return lo + *rc::gen::resize(rc::kNominalSize, rc::gen::inRange<uint64_t>(0, hi - lo));
    return *rc::gen::resize(rc::kNominalSize, rc::gen::inRange<uint64_t>(lo, hi + 1));
  }
};

struct CaseResult {
  std::string fail;   // "" = property held
  std::string json;   // decoded case, one-line JSON (for samples and replay files)
  bool discard = false;
  bool timeout = false;  // failed by the watchdog: every further execution costs the whole time-out
};
// A property body decodes a case from the Chooser, runs it and reports.  `st` is
// non-null only while cases are being counted (not while shrinking / replaying).
using Body = std::function<CaseResult(Chooser&, Stats*)>;

struct Prop {
  std::string name;
  Body body;
  double weight = 1.0;      // share of --cases
  int isolate = 0;          // default mode
  unsigned words = 1024;    // raw words per case in isolated mode
  unsigned timeout_s = 60;  // watchdog in isolated mode
  bool leakcheck = false;   // run LeakSanitizer after every case: a leak is a failing case
};

namespace detail {
inline std::string oneline(std::string s) { for (auto& c : s) if (c == '\n' || c == '\r') c = ' '; return s; }
// child -> parent protocol (text lines)
inline std::string pack(const CaseResult& r, const Stats& st, size_t consumed) {
  std::ostringstream o;
  o << "N " << consumed << "\n";
  o << "D " << (r.discard ? 1 : 0) << "\n";
  for (auto& kv : st.classes) o << "L " << kv.second << " " << oneline(kv.first) << "\n";
  for (auto& kv : st.maxima) { char b[40]; snprintf(b, sizeof b, "%.17g", kv.second); o << "M " << b << " " << oneline(kv.first) << "\n"; }
  for (auto h : st.distinct) o << "H " << h << "\n";
  o << "T " << st.nontrivial << " " << st.excluded_known << "\n";
  for (auto& s : st.samples) o << "S " << oneline(s) << "\n";
  o << "J " << oneline(r.json) << "\n";
  o << "V " << oneline(r.fail) << "\n";
  return o.str();
}
inline bool unpack(const std::string& msg, CaseResult& r, Stats* st, size_t& consumed) {
  std::istringstream in(msg);
  std::string line;
  bool gotv = false;
  while (std::getline(in, line)) {
    if (line.size() < 2) continue;
    char t = line[0];
    std::string rest = line.substr(2);
    if (t == 'N') consumed = strtoull(rest.c_str(), 0, 10);
    else if (t == 'D') r.discard = rest == "1";
    else if (t == 'J') r.json = rest;
    else if (t == 'V') { r.fail = rest; gotv = true; }
    else if (!st) continue;
    else if (t == 'L') { size_t sp = rest.find(' '); st->classes[rest.substr(sp + 1)] += strtoull(rest.c_str(), 0, 10); }
    else if (t == 'M') { size_t sp = rest.find(' '); st->maxi(rest.substr(sp + 1), strtod(rest.c_str(), 0)); }
    else if (t == 'H') st->distinct.insert(strtoull(rest.c_str(), 0, 10));
    else if (t == 'T') { unsigned long long a = 0, b = 0; sscanf(rest.c_str(), "%llu %llu", &a, &b); st->nontrivial += a; st->excluded_known += b; }
    else if (t == 'S') st->sample(rest);
  }
  return gotv;
}
}  // namespace detail

// Runs one case in a forked child over the given raw words.
inline CaseResult run_isolated(const Prop& p, const std::vector<uint64_t>& words, Stats* st, size_t& consumed) {
  consumed = words.size();
  ForkResult fr = fork_run([&]() -> std::string {
    ReplayChooser ch(words);
    Stats local; local.max_samples = 1;
    CaseResult r = p.body(ch, &local);
    if (p.leakcheck && r.fail.empty() && leaked_now()) r.fail = "memory obtained during this case was never released (LeakSanitizer)";
    local.cases = 1;
    return "\n" + detail::pack(r, local, std::min(ch.pos, words.size()));
  }, p.timeout_s);
  CaseResult r;
  if (fr.ok) { r.fail = "harness: child returned an empty verdict"; return r; }
  // fork_run treats a non-empty string as "failure text"; here the text is our protocol
  if (fr.why.size() && fr.why[0] == '\n') {
    if (!detail::unpack(fr.why, r, st, consumed)) r.fail = "harness: child verdict incomplete";
    return r;
  }
  if (fr.timeout) {
    // a watchdog hit must reproduce before it counts (DESIGN.md §1.2)
    int again = 0;
    for (int k = 0; k < 2; k++) {
      ForkResult f2 = fork_run([&]() -> std::string { ReplayChooser ch(words); Stats l; p.body(ch, &l); return "\n"; }, p.timeout_s);
      if (f2.timeout) again++;
    }
    if (again < 2) { r.discard = true; return r; }
    r.timeout = true;
  }
  r.fail = fr.why;
  r.json = "{\"note\":\"child died before reporting the decoded case; replay the draws\"}";
  return r;
}

inline int run_main(const Options& o, const std::string& prop_id, const std::vector<Prop>& props) {
  if (o.is_replay()) {
    ReplayFile rf;
    if (!read_replay(o.replay_file, rf)) { fprintf(stderr, "cannot read replay file %s\n", o.replay_file.c_str()); return 2; }
    gen_version() = rf.version;
    for (auto& p : props) {
      if (p.name != rf.name) continue;
      int iso = (int)o.getl("isolate", p.isolate);
      CaseResult r;
      if (iso) { size_t c; r = run_isolated(p, rf.draws, nullptr, c); }
      else { ReplayChooser ch(rf.draws); r = p.body(ch, nullptr); if (p.leakcheck && r.fail.empty() && leaked_now()) r.fail = "memory obtained during this case was never released (LeakSanitizer)"; }
      if (getenv("VF_PRINT_CASE")) printf("CASE %s\n", r.json.c_str());
      if (!r.fail.empty()) { printf("REPLAY-FAIL %s/%s: %s\n", prop_id.c_str(), p.name.c_str(), r.fail.c_str()); return 1; }
      printf("REPLAY-PASS %s/%s\n", prop_id.c_str(), p.name.c_str());
      return 0;
    }
    fprintf(stderr, "replay file names unknown sub-property '%s'\n", rf.name.c_str());
    return 2;
  }
  double wsum = 0;
  for (auto& p : props) if (o.prop_name.empty() || o.prop_name == p.name) wsum += p.weight;
  std::vector<Stats> all;
  int rc_exit = 0;
  for (auto& p : props) {
    if (!o.prop_name.empty() && o.prop_name != p.name) continue;
    long n = std::max<long>(1, (long)(o.cases * p.weight / wsum));
    int iso = (int)o.getl("isolate", p.isolate);
    Stats st; st.prop = prop_id; st.name = p.name;
    st.notes["mode"] = iso ? "isolated (fork per case)" : "inline";
    bool failed_once = false;
    long shrink_attempts = 0; const long shrink_budget = o.getl("shrink-budget", 600);
    std::string replay_path = o.replay_dir + "/" + p.name + ".case";
    rc::detail::TestParams tp;
    tp.seed = o.seed ^ mix64(std::hash<std::string>()(p.name));
    tp.maxSuccess = (int)n;
    tp.maxSize = o.max_size;
    tp.maxDiscardRatio = 50;
    tp.disableShrinking = false;
    rc::detail::TestMetadata md; md.id = prop_id + "/" + p.name; md.description = md.id;
    auto on_result = [&](const CaseResult& r, const std::vector<uint64_t>& draws, Stats* sp) {
      if (r.discard) { if (sp) st.discards++; RC_DISCARD("discard"); }
      if (sp) st.cases++;
      if (!r.fail.empty()) {
        // shrinking a hang costs three time-outs per attempt: keep the first few attempts only
        if (r.timeout) shrink_attempts = std::max(shrink_attempts, shrink_budget - 3);
        failed_once = true;
        st.failures++;
        ReplayFile rf; rf.prop = prop_id; rf.name = p.name; rf.draws = draws; rf.why = r.fail; rf.json = r.json;
        write_replay(replay_path, rf);
        RC_FAIL(r.fail);
      }
    };
    rc::detail::Property property = iso
      ? rc::detail::toProperty([&]() {
          std::vector<uint64_t> words = *rc::gen::container<std::vector<uint64_t>>(p.words, rc::gen::arbitrary<uint64_t>());
          // every shrink attempt costs a fork; bound the effort (the smallest failing case found so far stays on disk)
          if (failed_once && ++shrink_attempts > shrink_budget) return;
          Stats* sp = failed_once ? nullptr : &st;
          size_t consumed = words.size();
          CaseResult r = run_isolated(p, words, sp, consumed);
          words.resize(std::min(consumed, words.size()));
          on_result(r, words, sp);
        })
      : rc::detail::toProperty([&]() {
          RcChooser ch;
          Stats* sp = failed_once ? nullptr : &st;
          CaseResult r = p.body(ch, sp);
          if (p.leakcheck && r.fail.empty() && leaked_now()) r.fail = "memory obtained during this case was never released (LeakSanitizer)";
          on_result(r, ch.rec, sp);
        });
    rc::detail::TestResult result = rc::detail::checkProperty(property, md, tp);
    if (result.template is<rc::detail::FailureResult>()) {
      printf("FAIL %s/%s replay=%s\n", prop_id.c_str(), p.name.c_str(), replay_path.c_str());
      rc_exit = 1;
    } else if (result.template is<rc::detail::GaveUpResult>()) {
      printf("GAVEUP %s/%s: too many discards\n", prop_id.c_str(), p.name.c_str());
      st.notes["gave_up"] = "too many discards";
      if (rc_exit == 0) rc_exit = 2;
    } else if (result.template is<rc::detail::Error>()) {
      printf("ERROR %s/%s: %s\n", prop_id.c_str(), p.name.c_str(), result.template get<rc::detail::Error>().description.c_str());
      if (rc_exit == 0) rc_exit = 2;
    }
    all.push_back(std::move(st));
  }
  if (!o.stats_path.empty()) {
    std::string tmp = o.stats_path + ".tmp";
    FILE* f = fopen(tmp.c_str(), "w");
    if (f) {
      fputs("[", f);
      for (size_t i = 0; i < all.size(); i++) { if (i) fputs(",", f); std::string s = all[i].json(); fwrite(s.data(), 1, s.size(), f); }
      fputs("]\n", f);
      fclose(f);
      rename(tmp.c_str(), o.stats_path.c_str());
    }
  }
  return rc_exit;
}

}  // namespace vf
