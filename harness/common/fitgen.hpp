// fitgen.hpp — generated fit problems (C09, C10, C13, C18, C20) and the independent dense
// long-double assembly of the penalised weighted least-squares normal equations (R5).
#pragma once
#include "libtable.hpp"

namespace vf {

struct FitProblem {
  uint32_t ndim = 1;
  std::vector<uint32_t> order, porder;           // per dimension
  std::vector<double> smooth;                    // per dimension
  std::vector<std::vector<double>> knots, coords;
  // sparse listing of the data: indices per dimension, value, weight
  std::vector<std::vector<unsigned>> idx;        // idx[d][row]
  std::vector<double> y, w;
  bool single_smooth = false, single_porder = false;  // pass length-1 containers
  std::string data_class, listing;
  int unsorted_dim = -1;                         // dimension whose abscissae are not ascending (-1: none)
  size_t nrows() const { return y.size(); }
  std::vector<size_t> nfun() const { std::vector<size_t> n; for (uint32_t d = 0; d < ndim; d++) n.push_back(knots[d].size() - order[d] - 1); return n; }
  size_t ncoeff() const { size_t n = 1; for (auto v : nfun()) n *= v; return n; }
  std::string json(size_t maxrows = 6) const {
    std::ostringstream o;
    o << "{\"ndim\":" << ndim << ",\"order\":" << jarr(order) << ",\"penalty_order\":" << jarr(porder) << ",\"smoothing\":" << jarr(smooth) << ",\"knots\":[";
    for (uint32_t d = 0; d < ndim; d++) o << (d ? "," : "") << jarr(knots[d]);
    o << "],\"coords\":[";
    for (uint32_t d = 0; d < ndim; d++) o << (d ? "," : "") << jarr(coords[d]);
    o << "],\"rows\":" << nrows() << ",\"data_class\":" << jstr(data_class) << ",\"y_head\":[";
    for (size_t i = 0; i < y.size() && i < maxrows; i++) o << (i ? "," : "") << jnum(y[i]);
    o << "],\"w_head\":[";
    for (size_t i = 0; i < w.size() && i < maxrows; i++) o << (i ? "," : "") << jnum(w[i]);
    o << "]}";
    return o.str();
  }
};

struct FitGenOpts {
  int max_ndim = 3, min_order = 0, max_order = 4;
  size_t max_coeff = 300, max_rows = 4000;
  bool allow_sparse = true, allow_zero_weights = true;
  bool smoothing_zero_ok = true;
};

// strictly increasing irregular knots (fit's basis routine divides by knot differences)
inline std::vector<double> fit_knots(Chooser& ch, uint32_t order, int extra_max) {
  int n = 2 * (int)order + 2 + (int)ch.draw(0, extra_max);
  static const double incs[] = {1, 0.5, 2, 0.75, 1.5, 3};
  bool uniform = ch.coin(1, 3);
  std::vector<double> k(n);
  k[0] = (double)ch.range(-3, 3);
  for (int i = 1; i < n; i++) k[i] = k[i - 1] + (uniform ? 1.0 : incs[ch.draw(0, 5)]);
  return k;
}

inline FitProblem gen_fit_problem(Chooser& ch, const FitGenOpts& fo) {
  FitProblem p;
  p.ndim = 1 + (uint32_t)ch.draw(0, fo.max_ndim - 1);
  size_t total = 1;
  for (uint32_t d = 0; d < p.ndim; d++) {
    uint32_t o = (uint32_t)ch.range(fo.min_order, fo.max_order);
    int extra = p.ndim >= 3 ? 2 : (p.ndim == 2 ? 4 : 8);
    std::vector<double> k = fit_knots(ch, o, extra);
    while (total * (k.size() - o - 1) > fo.max_coeff && k.size() > 2 * o + 2) k.pop_back();
    if (total * (k.size() - o - 1) > fo.max_coeff && o > (uint32_t)fo.min_order) { o = (uint32_t)fo.min_order; k = fit_knots(ch, o, 1); }
    total *= k.size() - o - 1;
    p.order.push_back(o); p.knots.push_back(k);
    p.porder.push_back((uint32_t)ch.draw(0, o));
    static const double sm[] = {0, 1e-6, 1e-3, 1, 10, 1e3, 1e6};
    p.smooth.push_back(sm[ch.draw(fo.smoothing_zero_ok ? 0 : 1, 6)]);
    // abscissae: 2..4 points in every knot interval (irregular), optionally some outside the knot range
    std::vector<double> c;
    int per = 2 + (int)ch.draw(0, 2);
    if (o + 1 > (uint32_t)per) per = (int)o + 1;
    if (p.ndim >= 3) per = std::max<int>((int)o + 1, 2);
    for (size_t i = 0; i + 1 < k.size(); i++) for (int q = 0; q < per; q++) c.push_back(k[i] + (k[i + 1] - k[i]) * (q + 0.37 + 0.1 * (double)ch.draw(0, 2)) / (double)per);
    // some abscissae exactly on knots (the half-open span convention matters there, most visibly for order 0)
    if (ch.coin(1, 2)) { int nk = 1 + (int)ch.draw(0, 2); for (int q = 0; q < nk; q++) c.push_back(k[ch.draw(0, k.size() - 1)]); std::sort(c.begin(), c.end()); c.erase(std::unique(c.begin(), c.end()), c.end()); }
    if (ch.coin(1, 4)) { c.insert(c.begin(), k.front() - 1.5); c.push_back(k.back() + 0.75); }
    p.coords.push_back(c);
  }
  p.single_smooth = ch.coin(1, 4); if (p.single_smooth) for (auto& s : p.smooth) s = p.smooth[0];
  p.single_porder = ch.coin(1, 4); if (p.single_porder) { uint32_t m = p.porder[0]; for (uint32_t d = 0; d < p.ndim; d++) m = std::min(m, p.order[d]); for (auto& q : p.porder) q = m; }
  // grid of data
  size_t ngrid = 1; for (auto& c : p.coords) ngrid *= c.size();
  // thin the grid if it is too large
  while (ngrid > fo.max_rows) { size_t big = 0; for (size_t d = 1; d < p.ndim; d++) if (p.coords[d].size() > p.coords[big].size()) big = d; size_t before = p.coords[big].size(); if (before <= 2 * p.order[big] + 4) break; p.coords[big].erase(p.coords[big].begin() + (long)(before / 2)); ngrid = ngrid / before * (before - 1); }
  // abscissae need not be listed in ascending order: the data refer to them by index
  if (gen_version() >= 2 && ch.coin(1, 4)) {
    uint32_t ud = (uint32_t)ch.draw(0, p.ndim - 1);
    uint64_t s3 = ch.draw(0, 0xffff);
    std::vector<double>& c = p.coords[ud];
    if (s3 == 0) std::reverse(c.begin(), c.end());
    else for (size_t i = c.size() - 1; i > 0; i--) std::swap(c[i], c[(size_t)(mix64(s3 ^ mix64(i)) % (i + 1))]);
    p.unsorted_dim = (int)ud;
  }
  int shape = (int)ch.draw(0, 5);
  static const char* shapes[] = {"smooth", "noisy", "decreasing", "oscillating", "step", "constant"};
  p.data_class = shapes[shape];
  bool sparse = fo.allow_sparse && ch.coin(1, 3);
  int wkind = (int)ch.draw(0, 2);  // 0 unit, 1 varying, 2 varying with zeros
  if (wkind == 2 && !fo.allow_zero_weights) wkind = 1;
  uint64_t salt = ch.draw(0, 0xffff);
  p.idx.assign(p.ndim, {});
  std::vector<unsigned> I(p.ndim, 0);
  for (size_t g = 0; g < ngrid; g++) {
    size_t r = g;
    for (uint32_t d = p.ndim; d-- > 0;) { I[d] = (unsigned)(r % p.coords[d].size()); r /= p.coords[d].size(); }
    uint64_t h = mix64(salt ^ mix64(g));
    if (sparse && (h % 10) < 3 && !(g + 1 == ngrid && p.y.empty())) continue;  // missing cell (but never an empty data set)
    double s = 0;
    for (uint32_t d = 0; d < p.ndim; d++) s += (p.coords[d][I[d]] - p.knots[d].front()) / (p.knots[d].back() - p.knots[d].front()) * (d + 1);
    double v;
    switch (shape) {
      case 0: v = 1 + s + 0.5 * s * s; break;
      case 1: v = s + ((double)((h >> 8) % 1000) / 1000.0 - 0.5); break;
      case 2: v = 3 - 2 * s; break;
      case 3: v = sin(7 * s) + 0.3; break;
      case 4: v = s > 0.6 * p.ndim ? 2.0 : -1.0; break;
      default: v = 1.25; break;
    }
    double wt = wkind == 0 ? 1.0 : ldexp(1.0 + (double)((h >> 20) % 64) / 64.0, (int)((h >> 30) % 11) - 5);
    if (wkind == 2 && ((h >> 40) % 7) == 0) { wt = 0; v = 1e6 * ((double)((h >> 44) % 100) - 50); }  // zero weight, arbitrary value
    for (uint32_t d = 0; d < p.ndim; d++) p.idx[d].push_back(I[d]);
    p.y.push_back(v); p.w.push_back(wt);
  }
  p.data_class += sparse ? "+sparse" : "+dense";
  p.data_class += wkind == 0 ? "+unitw" : wkind == 1 ? "+varw" : "+zerow";
  // listing order: optionally shuffled (deterministic Fisher-Yates from a drawn salt)
  if (ch.coin(1, 2) && p.y.size() > 1) {
    uint64_t s2 = ch.draw(0, 0xffff);
    for (size_t i = p.y.size() - 1; i > 0; i--) {
      size_t j = (size_t)(mix64(s2 ^ mix64(i)) % (i + 1));
      std::swap(p.y[i], p.y[j]); std::swap(p.w[i], p.w[j]);
      for (uint32_t d = 0; d < p.ndim; d++) std::swap(p.idx[d][i], p.idx[d][j]);
    }
    p.listing = "shuffled";
  } else p.listing = "grid_order";
  if (p.unsorted_dim >= 0) p.listing += "+unsorted_abscissae";
  return p;
}

// ---- running the library fit ---------------------------------------------------------------
struct NdSparseHolder {
  photospline::ndsparse nd;
  explicit NdSparseHolder(const FitProblem& p) : nd(std::max<size_t>(1, p.nrows()), p.ndim) {
    std::vector<unsigned> I(p.ndim);
    for (size_t r = 0; r < p.nrows(); r++) { for (uint32_t d = 0; d < p.ndim; d++) I[d] = p.idx[d][r]; nd.insertEntry(p.y[r], I.data()); }
    for (uint32_t d = 0; d < p.ndim; d++) nd.ranges[d] = (unsigned)p.coords[d].size();
    if (p.nrows() == 0) nd.rows = 0;
  }
};

template <class T>
inline void run_fit(T& t, const FitProblem& p, uint32_t monodim) {
  NdSparseHolder h(p);
  std::vector<double> smooth = p.single_smooth ? std::vector<double>{p.smooth[0]} : p.smooth;
  std::vector<uint32_t> por = p.single_porder ? std::vector<uint32_t>{p.porder[0]} : p.porder;
  t.fit(h.nd, p.w, p.coords, p.order, p.knots, smooth, por, monodim, false);
}

// ---- independent dense reference (long double) ---------------------------------------------
struct DenseSys { size_t n = 0; std::vector<LD> A, r; };  // A row-major n x n

// derivative-coefficient matrix D_p (rows N-p, cols N): textbook de Boor formula
//   c^(q)_j = (n-q+1) (c^(q-1)_{j+1} - c^(q-1)_j) / (t_{j+n+1} - t_{j+q})
inline std::vector<std::vector<LD>> deriv_coeff_matrix(const std::vector<double>& t, int n, int pord, size_t N) {
  std::vector<std::vector<LD>> M(N, std::vector<LD>(N, 0));
  for (size_t i = 0; i < N; i++) M[i][i] = 1;
  size_t rows = N;
  for (int q = 1; q <= pord; q++) {
    std::vector<std::vector<LD>> Q(rows - 1, std::vector<LD>(N, 0));
    for (size_t j = 0; j + 1 < rows; j++) {
      LD den = (LD)t[j + n + 1] - (LD)t[j + q];
      LD f = (LD)(n - q + 1) / den;
      for (size_t c = 0; c < N; c++) Q[j][c] = f * (M[j + 1][c] - M[j][c]);
    }
    M.swap(Q); rows--;
  }
  M.resize(rows);
  return M;
}

// basis values as fit's basis routine defines them: half-open spans, zero outside the knot range
inline LD fit_basis(const std::vector<double>& k, int i, int n, double x) {
  if (n == 0) return (x >= k[i] && x < k[i + 1]) ? 1.0L : 0.0L;
  LD a = fit_basis(k, i, n - 1, x), b = fit_basis(k, i + 1, n - 1, x);
  return ((LD)x - k[i]) * a / ((LD)k[i + n] - k[i]) + ((LD)k[i + n + 1] - x) * b / ((LD)k[i + n + 1] - k[i + 1]);
}

inline DenseSys assemble_reference(const FitProblem& p) {
  DenseSys S; auto nf = p.nfun(); S.n = p.ncoeff();
  S.A.assign(S.n * S.n, 0); S.r.assign(S.n, 0);
  std::vector<size_t> stride(p.ndim); { size_t a = 1; for (uint32_t d = p.ndim; d-- > 0;) { stride[d] = a; a *= nf[d]; } }
  // per-dimension basis tables at the abscissae
  std::vector<std::vector<std::vector<LD>>> B(p.ndim);
  for (uint32_t d = 0; d < p.ndim; d++) { B[d].assign(p.coords[d].size(), std::vector<LD>(nf[d])); for (size_t q = 0; q < p.coords[d].size(); q++) for (size_t i = 0; i < nf[d]; i++) B[d][q][i] = fit_basis(p.knots[d], (int)i, (int)p.order[d], p.coords[d][q]); }
  // data term: for each row, the non-zero tensor basis entries
  for (size_t row = 0; row < p.nrows(); row++) {
    if (p.w[row] == 0) continue;
    std::vector<std::pair<size_t, LD>> ent{{0, 1.0L}};
    for (uint32_t d = 0; d < p.ndim; d++) {
      std::vector<std::pair<size_t, LD>> nx;
      for (auto& e : ent) for (size_t i = 0; i < nf[d]; i++) { LD b = B[d][p.idx[d][row]][i]; if (b != 0) nx.push_back({e.first + i * stride[d], e.second * b}); }
      ent.swap(nx);
    }
    for (auto& a : ent) { S.r[a.first] += (LD)p.w[row] * a.second * (LD)p.y[row]; for (auto& b : ent) S.A[a.first * S.n + b.first] += (LD)p.w[row] * a.second * b.second; }
  }
  // penalty terms
  for (uint32_t d = 0; d < p.ndim; d++) {
    if (p.smooth[d] == 0) continue;
    auto D = deriv_coeff_matrix(p.knots[d], (int)p.order[d], (int)p.porder[d], nf[d]);
    std::vector<LD> P(nf[d] * nf[d], 0);
    for (auto& rowv : D) for (size_t a = 0; a < nf[d]; a++) if (rowv[a] != 0) for (size_t b = 0; b < nf[d]; b++) P[a * nf[d] + b] += rowv[a] * rowv[b];
    // Kronecker extension with identities in the other dimensions
    size_t inner = stride[d], outer = S.n / (inner * nf[d]);
    for (size_t o = 0; o < outer; o++) for (size_t in = 0; in < inner; in++) for (size_t a = 0; a < nf[d]; a++) for (size_t b = 0; b < nf[d]; b++) {
      LD v = P[a * nf[d] + b]; if (v == 0) continue;
      size_t ia = o * inner * nf[d] + a * inner + in, ib = o * inner * nf[d] + b * inner + in;
      S.A[ia * S.n + ib] += (LD)p.smooth[d] * v;
    }
  }
  return S;
}

// Cholesky in long double; returns false if not positive definite.  L row-major lower.
inline bool cholesky_ld(const std::vector<LD>& A, size_t n, std::vector<LD>& L) {
  L.assign(n * n, 0);
  for (size_t i = 0; i < n; i++) for (size_t j = 0; j <= i; j++) {
    LD s = A[i * n + j];
    for (size_t k = 0; k < j; k++) s -= L[i * n + k] * L[j * n + k];
    if (i == j) { if (!(s > 0)) return false; L[i * n + i] = sqrtl(s); } else L[i * n + j] = s / L[j * n + j];
  }
  return true;
}
inline std::vector<LD> chol_solve(const std::vector<LD>& L, size_t n, const std::vector<LD>& b) {
  std::vector<LD> y(n), x(n);
  for (size_t i = 0; i < n; i++) { LD s = b[i]; for (size_t k = 0; k < i; k++) s -= L[i * n + k] * y[k]; y[i] = s / L[i * n + i]; }
  for (size_t i = n; i-- > 0;) { LD s = y[i]; for (size_t k = i + 1; k < n; k++) s -= L[k * n + i] * x[k]; x[i] = s / L[i * n + i]; }
  return x;
}
// crude 2-norm condition estimate: power iteration for the largest, inverse iteration for the smallest eigenvalue
inline LD cond_estimate(const std::vector<LD>& A, const std::vector<LD>& L, size_t n) {
  // start vectors without symmetry: (1,1,...,1) can be an exact eigenvector (of the SMALLEST eigenvalue for
  // matrices like [[a,-a],[-a,a]]+delta*I), which made the first version of this estimate return 1
  std::vector<LD> v(n), w(n);
  for (size_t i = 0; i < n; i++) v[i] = ((i & 1) ? -1.0L : 1.0L) * (0.3L + (LD)((i * 2654435761ULL + 12345) % 97) / 97.0L);
  LD lmax = 0, lmin_inv = 0;
  for (int it = 0; it < 200; it++) { for (size_t i = 0; i < n; i++) { LD s = 0; for (size_t j = 0; j < n; j++) s += A[i * n + j] * v[j]; w[i] = s; } LD nr = 0; for (LD x : w) nr += x * x; nr = sqrtl(nr); if (nr == 0) break; for (size_t i = 0; i < n; i++) v[i] = w[i] / nr; lmax = nr; }
  for (size_t i = 0; i < n; i++) v[i] = 1.0L + 0.61L * (LD)((i * 40503ULL + 7) % 13) / 13.0L + ((i % 3 == 1) ? -0.8L : 0.0L);
  for (int it = 0; it < 100; it++) { w = chol_solve(L, n, v); LD nr = 0; for (LD x : w) nr += x * x; nr = sqrtl(nr); if (nr == 0) break; for (size_t i = 0; i < n; i++) v[i] = w[i] / nr; lmin_inv = nr; }
  return lmax * lmin_inv;
}

}  // namespace vf
