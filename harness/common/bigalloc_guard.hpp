// bigalloc_guard.hpp — replaces the global operator new/delete of the harness executable so
// that absurdly large requests (hostile headers) throw std::bad_alloc, as they would on a real
// system with limited memory, instead of making AddressSanitizer abort ("out of memory" in a
// throwing operator new is fatal under ASan) or spend minutes poisoning gigabytes.
// Memory still comes from malloc/free, so ASan keeps checking bounds, use-after-free and leaks.
// Include in exactly one translation unit of a harness binary.
#pragma once
#include <cstdlib>
#include <new>
namespace vf { inline size_t& big_alloc_limit() { static size_t l = (size_t)256 << 20; return l; } }
void* operator new(size_t n) { if (n > vf::big_alloc_limit()) throw std::bad_alloc(); void* p = malloc(n ? n : 1); if (!p) throw std::bad_alloc(); return p; }
void* operator new[](size_t n) { if (n > vf::big_alloc_limit()) throw std::bad_alloc(); void* p = malloc(n ? n : 1); if (!p) throw std::bad_alloc(); return p; }
void* operator new(size_t n, const std::nothrow_t&) noexcept { if (n > vf::big_alloc_limit()) return nullptr; return malloc(n ? n : 1); }
void* operator new[](size_t n, const std::nothrow_t&) noexcept { if (n > vf::big_alloc_limit()) return nullptr; return malloc(n ? n : 1); }
void operator delete(void* p) noexcept { free(p); }
void operator delete[](void* p) noexcept { free(p); }
void operator delete(void* p, size_t) noexcept { free(p); }
void operator delete[](void* p, size_t) noexcept { free(p); }
