// libtable.hpp — build live photospline tables from a TableSpec (producers P1/P2/P3 of DESIGN.md).
#pragma once
#include "spec.hpp"
#include <photospline/splinetable.h>
#include <memory>

namespace vf {

typedef photospline::splinetable<> Table;

// silence cfitsio / library chatter on stderr while running a body (the library prints
// cfitsio error stacks for expected failures)
struct QuietStderr {
  int saved = -1;
  QuietStderr() {
    if (getenv("VF_VERBOSE")) return;
    fflush(stderr); saved = dup(2); int dn = open_devnull(); if (dn >= 0) { dup2(dn, 2); close(dn); }
  }
  ~QuietStderr() { if (saved >= 0) { fflush(stderr); dup2(saved, 2); close(saved); } }
  static int open_devnull();
};
}  // namespace vf
#include <fcntl.h>
namespace vf {
inline int QuietStderr::open_devnull() { return open("/dev/null", O_WRONLY); }

// P1: independent writer -> read_fits_mem
template <class T>
inline void build_p1(T& t, const TableSpec& s) {
  std::vector<unsigned char> bytes = spec_to_fits(s);
  t.read_fits_mem(bytes.data(), bytes.size());
}

// Does the live table agree with the spec in every getter the evaluation relies on?
template <class T>
inline std::string check_table_matches(const T& t, const TableSpec& s) {
  if (t.get_ndim() != s.ndim()) return "ndim differs";
  auto st = s.strides();
  for (uint32_t d = 0; d < s.ndim(); d++) {
    if (t.get_order(d) != s.dims[d].order) return "order differs in dim " + std::to_string(d);
    if (t.get_nknots(d) != s.dims[d].knots.size()) return "nknots differs in dim " + std::to_string(d);
    for (size_t i = 0; i < s.dims[d].knots.size(); i++)
      if (!same_bits(t.get_knot(d, i), s.dims[d].knots[i])) return "knot differs in dim " + std::to_string(d);
    if (t.get_ncoeffs(d) != s.dims[d].nfun()) return "ncoeffs differs in dim " + std::to_string(d);
    if (t.get_stride(d) != st[d]) return "stride differs in dim " + std::to_string(d);
  }
  if (t.get_ncoeffs() != s.ncoeff()) return "total ncoeffs differs";
  if (memcmp(t.get_coefficients(), s.coeff.data(), s.coeff.size() * sizeof(float)) != 0) return "coefficients differ";
  return "";
}

}  // namespace vf
