// fits_indep.hpp — independent byte-level FITS writer/parser (R4 of DESIGN.md) for exactly the
// subset the photospline format uses.  Shares no code with cfitsio or photospline.
#pragma once
#include "vf.hpp"

namespace vf {
namespace fits {

struct Card {
  std::string key;      // keyword (<= 8 chars) or HIERARCH long key
  std::string value;    // for strings: the unquoted content; otherwise the literal token
  char kind = 'I';      // 'S' string, 'I' integer, 'R' real, 'L' logical, 'C' comment-like/no value, 'X' raw 80-char card in `value`
  bool hierarch = false;
};

struct HDU {
  bool primary = true;
  std::string xtension = "IMAGE";
  int bitpix = -32;
  std::vector<long> naxes;          // NAXIS1..n as written in the header
  std::vector<Card> cards;          // everything after the mandatory ones (and PCOUNT/GCOUNT for extensions)
  std::vector<unsigned char> data;  // big-endian, unpadded
  long pcount = 0, gcount = 1;
};

inline std::string pad80(std::string s) { if (s.size() > 80) s.resize(80); s.resize(80, ' '); return s; }

inline std::string fmt_card(const Card& c) {
  if (c.kind == 'X') return pad80(c.value);
  std::string s;
  if (c.hierarch) {
    s = "HIERARCH " + c.key + " = ";
    if (c.kind == 'S') {
      std::string q;
      for (char ch : c.value) { q += ch; if (ch == '\'') q += '\''; }
      s += "'" + q + "'";
    } else s += c.value;
    return pad80(s);
  }
  std::string k = c.key; k.resize(8, ' ');
  if (c.kind == 'C') return pad80(k + " " + c.value);
  s = k + "= ";
  if (c.kind == 'S') {
    std::string q;
    for (char ch : c.value) { q += ch; if (ch == '\'') q += '\''; }
    if (q.size() < 8) q.resize(8, ' ');
    s += "'" + q + "'";
  } else {
    std::string v = c.value;
    if (v.size() < 20) v = std::string(20 - v.size(), ' ') + v;  // right-justified to column 30
    s += v;
  }
  return pad80(s);
}

inline Card icard(const std::string& k, long v) { Card c; c.key = k; c.value = std::to_string(v); c.kind = 'I'; return c; }
inline Card lcard(const std::string& k, bool v) { Card c; c.key = k; c.value = v ? "T" : "F"; c.kind = 'L'; return c; }
inline Card scard(const std::string& k, const std::string& v) { Card c; c.key = k; c.value = v; c.kind = 'S'; c.hierarch = k.size() > 8; return c; }
inline Card rcard(const std::string& k, double v) {
  Card c; c.key = k; c.kind = 'R'; char b[40]; snprintf(b, sizeof b, "%.16E", v); c.value = b; return c;
}

inline void put_be(std::vector<unsigned char>& out, const void* p, size_t n) {
  const unsigned char* b = (const unsigned char*)p;
  for (size_t i = 0; i < n; i++) out.push_back(b[n - 1 - i]);  // host is little-endian (x86)
}
inline void put_f32(std::vector<unsigned char>& out, float f) { put_be(out, &f, 4); }
inline void put_f64(std::vector<unsigned char>& out, double d) { put_be(out, &d, 8); }

inline std::vector<unsigned char> serialize(const std::vector<HDU>& hdus) {
  std::vector<unsigned char> out;
  for (size_t h = 0; h < hdus.size(); h++) {
    const HDU& u = hdus[h];
    std::string hdr;
    if (u.primary) hdr += fmt_card(lcard("SIMPLE", true));
    else hdr += fmt_card(scard("XTENSION", u.xtension));
    hdr += fmt_card(icard("BITPIX", u.bitpix));
    hdr += fmt_card(icard("NAXIS", (long)u.naxes.size()));
    for (size_t i = 0; i < u.naxes.size(); i++) hdr += fmt_card(icard("NAXIS" + std::to_string(i + 1), u.naxes[i]));
    if (u.primary) hdr += fmt_card(lcard("EXTEND", true));
    else { hdr += fmt_card(icard("PCOUNT", u.pcount)); hdr += fmt_card(icard("GCOUNT", u.gcount)); }
    for (auto& c : u.cards) hdr += fmt_card(c);
    hdr += pad80("END");
    while (hdr.size() % 2880) hdr += ' ';
    out.insert(out.end(), hdr.begin(), hdr.end());
    out.insert(out.end(), u.data.begin(), u.data.end());
    while (out.size() % 2880) out.push_back(0);
  }
  return out;
}

// ------------------------------------------------------------------ parser
struct PCard { std::string key, raw, value; char kind; };  // value: unquoted string / literal token
struct PHDU {
  std::vector<PCard> cards;
  int bitpix = 0; std::vector<long> naxes; long pcount = 0, gcount = 1;
  bool primary = false; std::string xtension, extname;
  size_t data_off = 0, data_len = 0;
  const PCard* find(const std::string& k) const { for (auto& c : cards) if (c.key == k) return &c; return nullptr; }
};

inline std::string rtrim(std::string s) { while (!s.empty() && s.back() == ' ') s.pop_back(); return s; }

inline bool parse_card(const std::string& raw, PCard& c) {
  c.raw = raw; c.kind = 'C'; c.value.clear();
  std::string k = rtrim(raw.substr(0, 8));
  size_t vstart;
  if (k == "HIERARCH") {
    size_t eq = raw.find('=');
    if (eq == std::string::npos) { c.key = k; return true; }
    std::string lk = raw.substr(9, eq - 9);
    lk = rtrim(lk); while (!lk.empty() && lk[0] == ' ') lk.erase(0, 1);
    c.key = lk; vstart = eq + 1;
  } else {
    c.key = k;
    if (raw.size() < 10 || raw[8] != '=' ) { c.value = rtrim(raw.substr(8)); return true; }
    vstart = 10;
  }
  size_t i = vstart;
  while (i < raw.size() && raw[i] == ' ') i++;
  if (i >= raw.size()) { c.kind = 'N'; return true; }
  if (raw[i] == '\'') {
    std::string v; i++;
    while (i < raw.size()) {
      if (raw[i] == '\'') { if (i + 1 < raw.size() && raw[i + 1] == '\'') { v += '\''; i += 2; continue; } break; }
      v += raw[i++];
    }
    c.kind = 'S'; c.value = v;
  } else {
    size_t e = i;
    while (e < raw.size() && raw[e] != ' ' && raw[e] != '/') e++;
    c.value = raw.substr(i, e - i);
    c.kind = (c.value == "T" || c.value == "F") ? 'L' : ((c.value.find_first_of(".EeDd") != std::string::npos) ? 'R' : 'I');
  }
  return true;
}

// Parses a whole file.  Returns "" on success, otherwise a description of what is malformed.
inline std::string parse(const unsigned char* buf, size_t len, std::vector<PHDU>& out) {
  size_t off = 0;
  out.clear();
  if (len % 2880) return "file size is not a multiple of 2880";
  while (off < len) {
    PHDU u; u.primary = out.empty();
    bool end = false;
    while (!end) {
      if (off + 2880 > len) return "header runs past end of file";
      for (int c = 0; c < 36; c++) {
        std::string raw((const char*)buf + off + 80 * c, 80);
        if (rtrim(raw.substr(0, 8)) == "END") { end = true; break; }
        PCard pc; parse_card(raw, pc);
        if (rtrim(raw).empty()) continue;
        u.cards.push_back(pc);
      }
      off += 2880;
    }
    const PCard* c;
    if (u.primary) { if (u.cards.empty() || u.cards[0].key != "SIMPLE") return "first card is not SIMPLE"; }
    else { if (u.cards.empty() || u.cards[0].key != "XTENSION") return "extension does not start with XTENSION"; u.xtension = rtrim(u.cards[0].value); }
    if (!(c = u.find("BITPIX"))) return "no BITPIX"; u.bitpix = atoi(c->value.c_str());
    if (!(c = u.find("NAXIS"))) return "no NAXIS";
    int na = atoi(c->value.c_str());
    for (int i = 1; i <= na; i++) { c = u.find("NAXIS" + std::to_string(i)); if (!c) return "missing NAXISn"; u.naxes.push_back(atol(c->value.c_str())); }
    if ((c = u.find("PCOUNT"))) u.pcount = atol(c->value.c_str());
    if ((c = u.find("GCOUNT"))) u.gcount = atol(c->value.c_str());
    if ((c = u.find("EXTNAME"))) u.extname = rtrim(c->value);
    size_t n = na ? 1 : 0;
    for (long a : u.naxes) n *= (size_t)a;
    u.data_len = (size_t)(std::abs(u.bitpix) / 8) * (size_t)u.gcount * ((size_t)u.pcount + n);
    u.data_off = off;
    size_t padded = (u.data_len + 2879) / 2880 * 2880;
    if (off + padded > len) return "data runs past end of file";
    off += padded;
    out.push_back(u);
  }
  return "";
}
inline double get_f64(const unsigned char* p) { unsigned char b[8]; for (int i = 0; i < 8; i++) b[i] = p[7 - i]; double d; memcpy(&d, b, 8); return d; }
inline float get_f32(const unsigned char* p) { unsigned char b[4]; for (int i = 0; i < 4; i++) b[i] = p[3 - i]; float f; memcpy(&f, b, 4); return f; }

}  // namespace fits
}  // namespace vf
