// vf.hpp — common machinery of the photospline verification harness.
//
//  * Chooser: every random decision of a generated case is a bounded integer
//    draw through this interface.  Three back ends: rapidcheck (RcChooser,
//    vf_rc.hpp), libFuzzer bytes (FdpChooser, vf_fdp.hpp) and a recorded draw
//    list (ReplayChooser).  Every Chooser records what it handed out, so a
//    failing case can be written to a replay file and re-executed without any
//    library.
//  * Stats: per-run counters, class labels, distinct non-trivial hashes,
//    sample cases; serialised as JSON for the driver (vcheck).
//  * fork_run: execute a body in a forked child with a watchdog.
#pragma once
#include <algorithm>
#include <cinttypes>
#include <cmath>
#include <cstdint>
#include <cstdio>
#include <cstdlib>
#include <cstring>
#include <functional>
#include <map>
#include <set>
#include <sstream>
#include <stdexcept>
#include <string>
#include <unordered_set>
#include <vector>
#include <signal.h>
#include <sys/types.h>
#include <sys/wait.h>
#include <unistd.h>

namespace vf {

// ---------------------------------------------------------------- hashing
inline uint64_t mix64(uint64_t x) {
  x += 0x9e3779b97f4a7c15ULL;
  x = (x ^ (x >> 30)) * 0xbf58476d1ce4e5b9ULL;
  x = (x ^ (x >> 27)) * 0x94d049bb133111ebULL;
  return x ^ (x >> 31);
}
struct Hasher {
  uint64_t h = 0x1234567887654321ULL;
  void add(uint64_t v) { h = mix64(h ^ mix64(v)); }
  void addd(double d) { uint64_t u; memcpy(&u, &d, 8); add(u); }
  void adds(const std::string& s) { for (unsigned char c : s) add(c); add(s.size()); }
};

// ---------------------------------------------------------------- Chooser
struct Chooser {
  std::vector<uint64_t> rec;  // every value handed out, in order
  virtual ~Chooser() {}
  // uniform-ish integer in [lo, hi], lo <= hi.  Smaller = simpler.
  virtual uint64_t raw(uint64_t lo, uint64_t hi) = 0;
  uint64_t draw(uint64_t lo, uint64_t hi) {
    // a degenerate range consumes nothing from the source and is not recorded either: a ReplayChooser fed with
    // `rec` must see exactly the values that raw() handed out (recording them made every inline-mode replay of a
    // case with such a draw decode to a different case - its failure was then dropped as "unreproduced")
    if (hi <= lo) return lo;
    uint64_t v = raw(lo, hi);
    rec.push_back(v);
    return v;
  }
  int range(int lo, int hi) {  // inclusive, lo may be negative
    uint64_t v = draw(0, (uint64_t)((int64_t)hi - (int64_t)lo));
    return (int)((int64_t)lo + (int64_t)v);
  }
  bool coin(unsigned num, unsigned den) { return draw(0, den - 1) < num; }
  template <class T> const T& pick(const std::vector<T>& v) { return v[draw(0, v.size() - 1)]; }
  uint64_t bits64() { return draw(0, UINT64_MAX); }
};

struct ReplayChooser : Chooser {
  std::vector<uint64_t> src;
  size_t pos = 0;
  explicit ReplayChooser(std::vector<uint64_t> s) : src(std::move(s)) {}
  uint64_t raw(uint64_t lo, uint64_t hi) override {
    uint64_t v = pos < src.size() ? src[pos] : lo;
    pos++;
    if (v < lo || v > hi) {
      uint64_t span = hi - lo;
      v = (span == UINT64_MAX) ? v : lo + (v - lo) % (span + 1);
    }
    return v;
  }
};

// ---------------------------------------------------------------- JSON bits
inline std::string jesc(const std::string& s) {
  std::string o;
  for (unsigned char c : s) {
    if (c == '"' || c == '\\') { o += '\\'; o += (char)c; }
    else if (c < 0x20 || c >= 0x7f) { char b[8]; snprintf(b, sizeof b, "\\u%04x", c); o += b; }
    else o += (char)c;
  }
  return o;
}
inline std::string jstr(const std::string& s) { return "\"" + jesc(s) + "\""; }
inline std::string jnum(double d) {
  if (std::isnan(d)) return "\"nan\"";
  if (std::isinf(d)) return d > 0 ? "\"inf\"" : "\"-inf\"";
  char b[40]; snprintf(b, sizeof b, "%.17g", d); return b;
}
template <class T> inline std::string jarr(const std::vector<T>& v) {
  std::string o = "[";
  for (size_t i = 0; i < v.size(); i++) { if (i) o += ","; o += jnum((double)v[i]); }
  return o + "]";
}

// ---------------------------------------------------------------- Stats
struct Stats {
  std::string prop, name;
  uint64_t cases = 0, nontrivial = 0, discards = 0, excluded_known = 0;
  std::map<std::string, uint64_t> classes;   // label -> count
  std::map<std::string, double> maxima;      // label -> max observed value
  std::unordered_set<uint64_t> distinct;     // hashes of non-trivial cases
  std::vector<std::string> samples;          // JSON texts of sample cases
  std::map<std::string, std::string> notes;
  uint64_t failures = 0;
  size_t max_samples = 8;
  void label(const std::string& l, uint64_t n = 1) { classes[l] += n; }
  void maxi(const std::string& l, double v) { auto it = maxima.find(l); if (it == maxima.end() || v > it->second) maxima[l] = v; }
  void nontriv(uint64_t hash) { nontrivial++; distinct.insert(hash); }
  void sample(const std::string& js) {
    // keep the first few and then a thinning reservoir driven by the case count (deterministic)
    if (samples.size() < max_samples) samples.push_back(js);
    else if ((cases & (cases - 1)) == 0) samples[(cases >> 3) % max_samples] = js;
  }
  std::string json() const {
    std::ostringstream o;
    o << "{\"prop\":" << jstr(prop) << ",\"name\":" << jstr(name) << ",\"cases\":" << cases
      << ",\"nontrivial\":" << nontrivial << ",\"distinct_nontrivial\":" << distinct.size()
      << ",\"discards\":" << discards << ",\"excluded_known\":" << excluded_known
      << ",\"failures\":" << failures << ",\"classes\":{";
    bool f = true;
    for (auto& kv : classes) { if (!f) o << ","; f = false; o << jstr(kv.first) << ":" << kv.second; }
    o << "},\"maxima\":{";
    f = true;
    for (auto& kv : maxima) { if (!f) o << ","; f = false; o << jstr(kv.first) << ":" << jnum(kv.second); }
    o << "},\"notes\":{";
    f = true;
    for (auto& kv : notes) { if (!f) o << ","; f = false; o << jstr(kv.first) << ":" << jstr(kv.second); }
    o << "},\"samples\":[";
    for (size_t i = 0; i < samples.size(); i++) { if (i) o << ","; o << samples[i]; }
    o << "],\"hashes\":[";
    // distinct hashes are exported (truncated) so the driver can count distinct cases across workers
    size_t n = 0;
    for (auto h : distinct) { if (n) o << ","; o << "\"" << std::hex << h << std::dec << "\""; if (++n >= 200000) break; }
    o << "]}";
    return o.str();
  }
  void write(const std::string& path) const {
    if (path.empty()) return;
    std::string tmp = path + ".tmp";
    FILE* f = fopen(tmp.c_str(), "w");
    if (!f) return;
    std::string s = json();
    fwrite(s.data(), 1, s.size(), f);
    fclose(f);
    rename(tmp.c_str(), path.c_str());
  }
};

// ---------------------------------------------------------------- options
struct Options {
  std::string prop_name;         // sub-property to run ("" = all in the binary)
  uint64_t seed = 1;
  long cases = 1000;
  int max_size = 100;
  std::string stats_path, replay_dir = ".", replay_file, tier = "quick";
  std::map<std::string, std::string> extra;
  bool is_replay() const { return !replay_file.empty(); }
  std::string get(const std::string& k, const std::string& d = "") const { auto it = extra.find(k); return it == extra.end() ? d : it->second; }
  long getl(const std::string& k, long d) const { auto it = extra.find(k); return it == extra.end() ? d : atol(it->second.c_str()); }
};
inline Options& g_opts() { static Options o; return o; }
// known-finding classes are excluded by construction unless a probe asks for them (--noexclude 1)
inline bool exclude_known() { return g_opts().getl("noexclude", 0) == 0; }
inline Options parse_options(int argc, char** argv) {
  Options& o = g_opts();
  for (int i = 1; i < argc; i++) {
    std::string a = argv[i];
    auto next = [&]() -> std::string { if (i + 1 >= argc) { fprintf(stderr, "missing value for %s\n", a.c_str()); exit(2); } return argv[++i]; };
    if (a == "--seed") o.seed = strtoull(next().c_str(), 0, 10);
    else if (a == "--cases") o.cases = atol(next().c_str());
    else if (a == "--max-size") o.max_size = atoi(next().c_str());
    else if (a == "--stats") o.stats_path = next();
    else if (a == "--replay-dir") o.replay_dir = next();
    else if (a == "--replay") o.replay_file = next();
    else if (a == "--tier") o.tier = next();
    else if (a == "--name") o.prop_name = next();
    else if (a.rfind("--", 0) == 0) { std::string k = a.substr(2); o.extra[k] = next(); }
    else { fprintf(stderr, "unknown argument %s\n", a.c_str()); exit(2); }
  }
  return o;
}

// ---------------------------------------------------------------- replay files
// Generator version: draws added to a generator after replay files were committed are guarded by
// gen_version() >= N, so that older files (whose first line carries the version they were written
// with) still decode to the case they were saved for.
constexpr int kGenVersion = 2;
inline int& gen_version() { static int v = kGenVersion; return v; }
// Format (text):
//   VFCASE <generator version>
//   prop <id>
//   name <sub-property>
//   draws <n> v0 v1 ...
//   why <free text, one line>
//   json <decoded case as one JSON line>
struct ReplayFile {
  int version = 1;
  std::string prop, name, why, json;
  std::vector<uint64_t> draws;
};
inline bool write_replay(const std::string& path, const ReplayFile& r) {
  std::string tmp = path + ".tmp";
  FILE* f = fopen(tmp.c_str(), "w");
  if (!f) return false;
  fprintf(f, "VFCASE %d\nprop %s\nname %s\ndraws %zu", kGenVersion, r.prop.c_str(), r.name.c_str(), r.draws.size());
  for (auto d : r.draws) fprintf(f, " %" PRIu64, d);
  std::string why = r.why; for (auto& c : why) if (c == '\n') c = ' ';
  fprintf(f, "\nwhy %s\njson %s\n", why.c_str(), r.json.c_str());
  fclose(f);
  return rename(tmp.c_str(), path.c_str()) == 0;
}
inline bool read_replay(const std::string& path, ReplayFile& r) {
  FILE* f = fopen(path.c_str(), "r");
  if (!f) return false;
  std::string all; char buf[65536]; size_t n;
  while ((n = fread(buf, 1, sizeof buf, f)) > 0) all.append(buf, n);
  fclose(f);
  std::istringstream in(all);
  std::string line;
  if (!std::getline(in, line) || line.rfind("VFCASE", 0) != 0) return false;
  r.version = atoi(line.c_str() + 6); if (r.version < 1) r.version = 1;
  while (std::getline(in, line)) {
    if (line.rfind("prop ", 0) == 0) r.prop = line.substr(5);
    else if (line.rfind("name ", 0) == 0) r.name = line.substr(5);
    else if (line.rfind("why ", 0) == 0) r.why = line.substr(4);
    else if (line.rfind("json ", 0) == 0) r.json = line.substr(5);
    else if (line.rfind("draws ", 0) == 0) {
      std::istringstream ls(line.substr(6));
      size_t cnt; ls >> cnt; r.draws.resize(cnt);
      for (size_t i = 0; i < cnt; i++) ls >> r.draws[i];
    }
  }
  return true;
}

// ---------------------------------------------------------------- fork runner
// Runs body() in a forked child.  The child returns a verdict string through
// a pipe ("" = pass).  Death by signal, non-zero exit (sanitizer) or watchdog
// timeout yields a failing verdict describing it.
struct ForkResult { bool ok; bool timeout; std::string why; };
inline ForkResult fork_run(const std::function<std::string()>& body, unsigned timeout_s = 60) {
  int fds[2];
  if (pipe(fds) != 0) return {false, false, "pipe() failed"};
  fflush(stdout); fflush(stderr);
  pid_t pid = fork();
  if (pid < 0) { close(fds[0]); close(fds[1]); return {false, false, "fork() failed"}; }
  if (pid == 0) {
    close(fds[0]);
    alarm(timeout_s);
    std::string v;
    try { v = body(); }
    catch (const std::exception& e) { v = std::string("uncaught exception in harness body: ") + e.what(); }
    catch (...) { v = "uncaught non-std exception in harness body"; }
    std::string msg = "V" + v;
    size_t off = 0;
    while (off < msg.size()) { ssize_t w = ::write(fds[1], msg.data() + off, msg.size() - off); if (w <= 0) break; off += (size_t)w; }
    close(fds[1]);
    _exit(0);
  }
  close(fds[1]);
  std::string got; char buf[4096]; ssize_t n;
  while ((n = read(fds[0], buf, sizeof buf)) > 0) got.append(buf, (size_t)n);
  close(fds[0]);
  int status = 0;
  waitpid(pid, &status, 0);
  if (WIFSIGNALED(status)) {
    int sig = WTERMSIG(status);
    if (sig == SIGALRM) return {false, true, "watchdog: no termination within " + std::to_string(timeout_s) + " s"};
    return {false, false, "child killed by signal " + std::to_string(sig) + " (" + strsignal(sig) + ")"};
  }
  if (WIFEXITED(status) && WEXITSTATUS(status) != 0)
    return {false, false, "child exited with status " + std::to_string(WEXITSTATUS(status)) + " (sanitizer report, abort or exit())"};
  if (got.empty() || got[0] != 'V') return {false, false, "child produced no verdict"};
  std::string v = got.substr(1);
  return {v.empty(), false, v};
}

// scribble over the stack below the current frame so that reads of never-written
// locals become deterministic (pattern 0x00 or NaN-ish 0xff).
__attribute__((noinline)) inline void scribble_stack(unsigned char pattern) {
  volatile unsigned char buf[48 * 1024];
  for (size_t i = 0; i < sizeof buf; i++) buf[i] = pattern;
  __asm__ volatile("" ::: "memory");
}

inline bool same_bits(double a, double b) { return memcmp(&a, &b, 8) == 0; }

}  // namespace vf
