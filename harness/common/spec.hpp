// spec.hpp — TableSpec (what a generated spline table is), its generators (knot / coefficient
// palettes of DESIGN.md §2), its rendering as independent FITS bytes and as JSON.
#pragma once
#include "vf.hpp"
#include "ref.hpp"
#include "fits_indep.hpp"

namespace vf {

struct DimSpec {
  uint32_t order = 2;
  std::vector<double> knots;
  double ext_lo = 0, ext_hi = 0;
  double period = 0;
  size_t nfun() const { return knots.size() - order - 1; }
};

struct TableSpec {
  std::vector<DimSpec> dims;
  std::vector<float> coeff;  // C order
  bool has_extents = true, has_periods = true, legacy_order = false;
  std::vector<std::pair<std::string, std::string>> aux;
  // provenance labels for the class counters
  std::string knot_class, coeff_class;

  size_t ndim() const { return dims.size(); }
  uint64_t ncoeff() const { uint64_t n = 1; for (auto& d : dims) n *= d.nfun(); return n; }
  std::vector<uint64_t> strides() const {
    std::vector<uint64_t> s(dims.size()); uint64_t a = 1;
    for (size_t d = dims.size(); d-- > 0;) { s[d] = a; a *= dims[d].nfun(); }
    return s;
  }
  std::vector<RefDim> refdims() const {
    std::vector<RefDim> r;
    for (auto& d : dims) r.push_back(RefDim{d.knots, (int)d.order});
    return r;
  }
  uint64_t hash() const {
    Hasher h;
    for (auto& d : dims) { h.add(d.order); for (double k : d.knots) h.addd(k); h.add(0xabc); }
    for (float c : coeff) { uint32_t u; memcpy(&u, &c, 4); h.add(u); }
    return h.h;
  }
  std::string json(size_t max_coeff = 24) const {
    std::ostringstream o;
    o << "{\"ndim\":" << dims.size() << ",\"dims\":[";
    for (size_t i = 0; i < dims.size(); i++) {
      if (i) o << ",";
      o << "{\"order\":" << dims[i].order << ",\"knots\":" << jarr(dims[i].knots) << "}";
    }
    o << "],\"ncoeff\":" << coeff.size() << ",\"coeff_head\":[";
    for (size_t i = 0; i < coeff.size() && i < max_coeff; i++) { if (i) o << ","; o << jnum(coeff[i]); }
    o << "],\"knot_class\":" << jstr(knot_class) << ",\"coeff_class\":" << jstr(coeff_class) << "}";
    return o.str();
  }
};

// ---------------------------------------------------------------- knot palette
// All values are exactly representable so that points can hit knots exactly.
struct KnotOpts {
  bool allow_repeats = true;
  bool strictly_increasing = false;  // overrides allow_repeats
  bool extreme = false;              // huge / tiny magnitudes (C04)
  int extra_max = 9;                 // knots beyond the minimum 2*order+2
};

inline std::vector<double> gen_knots(Chooser& ch, uint32_t order, const KnotOpts& ko, std::string* cls = nullptr) {
  int minlen = 2 * (int)order + 2;
  // bias towards the minimum and minimum+1
  int extra;
  switch (ch.draw(0, 3)) { case 0: extra = 0; break; case 1: extra = 1; break; default: extra = ch.range(0, ko.extra_max); }
  int n = minlen + extra;
  std::vector<double> k(n);
  int kind = (int)ch.draw(0, ko.extreme ? 4 : 3);
  static const double scales[] = {1.0, 1.0 / 1048576.0, 1048576.0};
  static const double offsets[] = {0.0, -3.0, 1000000.0};
  double scale = scales[ch.draw(0, 2)], offset = offsets[ch.draw(0, 2)];
  std::string c;
  if (kind == 0) { c = "uniform"; for (int i = 0; i < n; i++) k[i] = i; }
  else if (kind == 1) { c = "geometric"; double v = 1; k[0] = 0; for (int i = 1; i < n; i++) { k[i] = k[i - 1] + v; v *= (i % 2 ? 2.0 : 1.5); } }
  else if (kind == 2 || kind == 3) {
    c = "irregular";
    static const double incs[] = {1, 2, 3, 0.25, 1.0 / 1024, 37};
    k[0] = 0;
    for (int i = 1; i < n; i++) k[i] = k[i - 1] + incs[ch.draw(0, 5)];
  } else {
    c = "extreme";
    int sub = (int)ch.draw(0, 3);
    if (sub == 0) { double s = ldexp(1.0, 1000 - n); k[0] = 0; for (int i = 1; i < n; i++) k[i] = k[i - 1] + s * (1 + (double)ch.draw(0, 3)); scale = 1; offset = 0; }
    else if (sub == 1) { double s = ldexp(1.0, -1070); k[0] = 0; for (int i = 1; i < n; i++) k[i] = k[i - 1] + s * (1 + (double)ch.draw(0, 3)); scale = 1; offset = 0; }
    else if (sub == 2) { k[0] = 1e15; for (int i = 1; i < n; i++) k[i] = k[i - 1] + 1 + (double)ch.draw(0, 2); scale = 1; offset = 0; }
    else { k[0] = -ldexp(1.0, 900); for (int i = 1; i < n; i++) k[i] = k[i - 1] + ldexp(1.0, 890 + (int)ch.draw(0, 8)); scale = 1; offset = 0; }
  }
  for (auto& v : k) v = v * scale + offset;
  // the affine map can merge neighbours (offset 1e6 with tiny scale): re-separate by construction
  bool merged = false;
  for (int i = 1; i < n; i++) if (!(k[i] > k[i - 1])) merged = true;
  if (merged) { for (int i = 0; i < n; i++) k[i] = offset + i; c += "+respaced"; }
  std::vector<double> before_repeats = k;
  std::string c_before = c;
  if (!ko.strictly_increasing && ko.allow_repeats && ch.coin(1, 3)) {
    // repeated knots: multiplicity 2..order+1 somewhere, clamped ends, or straddling ku
    int mode = (int)ch.draw(0, 3);
    if (mode == 0 && n >= 3) {  // interior repeat
      int mult = 2 + (int)ch.draw(0, order > 0 ? order - 1 + 1 - 1 : 0);
      if (mult > (int)order + 1) mult = order + 1;
      int at = 1 + (int)ch.draw(0, n - 2);
      for (int r = 1; r < mult && at + r < n - 1; r++) k[at + r] = k[at];
      c += "+repeat";
    } else if (mode == 1) {  // clamped ends: first/last order+1 knots equal
      for (uint32_t r = 1; r <= order && (int)r < n; r++) { k[r] = k[0]; k[n - 1 - r] = k[n - 1]; }
      c += "+clamped";
    } else if (mode == 2) {  // repeat ending exactly at ku = k[n-order-1]
      int ku = n - (int)order - 1;
      if (ku >= 1) { k[ku - 1] = k[ku]; c += "+repeat_at_ku"; }
    } else {  // repeat starting at ku
      int ku = n - (int)order - 1;
      if (ku + 1 < n - 1) { k[ku + 1] = k[ku]; c += "+repeat_from_ku"; }
    }
    // keep first<second-last constraint: need k[0] < k[n-1]
    for (int i = 1; i < n; i++) if (k[i] < k[i - 1]) k[i] = k[i - 1];
    if (!(k[0] < k[n - 1])) { k = before_repeats; c = c_before; }  // (first, last] must not be empty
  }
  if (cls) *cls = c + (extra == 0 ? "+minlen" : "");
  return k;
}

// ---------------------------------------------------------------- coefficient palette
inline float coeff_value(uint64_t salt, uint64_t i, int kind, const std::vector<float>& dict) {
  uint64_t h = mix64(salt ^ mix64(i));
  switch (kind) {
    case 0: return 1.0f;
    case 1: return (float)((int)(h % 7) - 3);
    case 2: return dict[h % dict.size()];
    case 3: return (h % 10 < 7) ? 0.0f : dict[(h >> 8) % dict.size()];
    default: return ((i & 1) ? -1.0f : 1.0f) * fabsf(dict[h % dict.size()]);
  }
}
inline void gen_coeffs(Chooser& ch, TableSpec& s, int force_kind = -1) {
  int kind = force_kind >= 0 ? force_kind : (int)ch.draw(0, 4);
  static const char* names[] = {"ones", "small_int", "random", "sparse", "alternating"};
  s.coeff_class = names[kind];
  std::vector<float> dict;
  if (kind >= 2) {
    int nd = 2 + (int)ch.draw(0, 6);
    for (int i = 0; i < nd; i++) {
      // mantissa in [-1024,1024]/64, exponent 2^-20..2^20
      int m = ch.range(-1024, 1024); int e = ch.range(-20, 20);
      float v = ldexpf((float)m / 64.0f, e);
      dict.push_back(v == 0 ? 1.0f : v);
    }
  }
  uint64_t salt = kind ? ch.draw(0, 0xffff) : 0;
  uint64_t n = s.ncoeff();
  s.coeff.resize(n);
  for (uint64_t i = 0; i < n; i++) s.coeff[i] = coeff_value(salt, i, kind, dict);
}

// ---------------------------------------------------------------- spec generator
struct SpecOpts {
  int min_ndim = 1, max_ndim = 9;
  int max_order = 5;
  int min_order = 0;
  uint64_t max_coeffs = 200000;
  uint64_t max_terms = 46656;  // prod(order+1)
  KnotOpts ko;
  int force_coeff_kind = -1;
  bool distinct_axes = false;   // pairwise different axis lengths where possible
};

inline TableSpec gen_spec(Chooser& ch, const SpecOpts& so) {
  TableSpec s;
  // dimension count biased to small values but covering the whole range
  int nd;
  { uint64_t r = ch.draw(0, 9); nd = r < 4 ? so.min_ndim + (int)ch.draw(0, std::min(2, so.max_ndim - so.min_ndim)) : ch.range(so.min_ndim, so.max_ndim); }
  bool equal_orders = ch.coin(1, 2);
  int common = ch.range(so.min_order, so.max_order);
  int omax = so.max_order;
  if (nd >= 8) omax = std::min(omax, 2); else if (nd >= 6) omax = std::min(omax, 3);
  if (common > omax) common = omax;
  if (common < so.min_order) common = so.min_order;
  std::string kc;
  uint64_t terms = 1;
  for (int d = 0; d < nd; d++) {
    DimSpec ds;
    ds.order = equal_orders ? (uint32_t)common : (uint32_t)ch.range(so.min_order, std::max(so.min_order, omax));
    if (terms * (ds.order + 1) > so.max_terms) ds.order = (uint32_t)so.min_order;
    terms *= (ds.order + 1);
    KnotOpts ko = so.ko;
    if (nd >= 5) ko.extra_max = std::min(ko.extra_max, 2);
    std::string c;
    ds.knots = gen_knots(ch, ds.order, ko, &c);
    if (d) kc += "|"; kc += c;
    s.dims.push_back(ds);
  }
  // cap the coefficient count by trimming knots (keeps minimum length)
  auto total = [&]() { uint64_t n = 1; for (auto& d : s.dims) n *= d.nfun(); return n; };
  for (int guard = 0; total() > so.max_coeffs && guard < 1000; guard++) {
    size_t big = 0;
    for (size_t d = 1; d < s.dims.size(); d++) if (s.dims[d].nfun() > s.dims[big].nfun()) big = d;
    if (s.dims[big].knots.size() <= 2 * s.dims[big].order + 2) break;
    s.dims[big].knots.pop_back();
  }
  if (so.distinct_axes) {
    for (size_t d = 1; d < s.dims.size(); d++)
      for (int guard = 0; guard < 12; guard++) {
        bool clash = false;
        for (size_t e = 0; e < d; e++) if (s.dims[e].nfun() == s.dims[d].nfun()) clash = true;
        if (!clash) break;
        double last = s.dims[d].knots.back(), prev = s.dims[d].knots[s.dims[d].knots.size() - 2];
        s.dims[d].knots.push_back(last + (last > prev ? last - prev : 1.0));
      }
  }
  for (auto& d : s.dims) {
    d.ext_lo = d.knots[d.order];
    d.ext_hi = d.knots[d.knots.size() - d.order - 1];
    d.period = 0;
  }
  s.knot_class = kc;
  gen_coeffs(ch, s, so.force_coeff_kind);
  return s;
}

// ---------------------------------------------------------------- FITS rendering (independent writer)
inline std::vector<fits::HDU> spec_to_hdus(const TableSpec& s) {
  using namespace fits;
  std::vector<HDU> hs;
  HDU p; p.primary = true; p.bitpix = -32;
  for (size_t d = s.dims.size(); d-- > 0;) p.naxes.push_back((long)s.dims[d].nfun());  // reversed axis order
  p.cards.push_back(scard("TYPE", "Spline Coefficient Table"));
  if (s.legacy_order) p.cards.push_back(icard("ORDER", s.dims[0].order));
  else for (size_t d = 0; d < s.dims.size(); d++) p.cards.push_back(icard("ORDER" + std::to_string(d), s.dims[d].order));
  if (s.has_periods) for (size_t d = 0; d < s.dims.size(); d++) p.cards.push_back(rcard("PERIOD" + std::to_string(d), s.dims[d].period));
  for (auto& kv : s.aux) p.cards.push_back(scard(kv.first, kv.second));
  p.data.reserve(4 * s.coeff.size());
  for (float c : s.coeff) put_f32(p.data, c);
  hs.push_back(p);
  for (size_t d = 0; d < s.dims.size(); d++) {
    HDU k; k.primary = false; k.bitpix = -64; k.naxes = {(long)s.dims[d].knots.size()};
    k.cards.push_back(scard("EXTNAME", "KNOTS" + std::to_string(d)));
    for (double v : s.dims[d].knots) put_f64(k.data, v);
    hs.push_back(k);
  }
  if (s.has_extents) {
    HDU e; e.primary = false; e.bitpix = -64; e.naxes = {(long)(2 * s.dims.size())};
    e.cards.push_back(scard("EXTNAME", "EXTENTS"));
    for (auto& d : s.dims) { put_f64(e.data, d.ext_lo); put_f64(e.data, d.ext_hi); }
    hs.push_back(e);
  }
  return hs;
}
inline std::vector<unsigned char> spec_to_fits(const TableSpec& s) { return fits::serialize(spec_to_hdus(s)); }

// ---------------------------------------------------------------- point palette
// kind: 0 interior random-ish midpoint, 1 exactly a knot, 2 nextafter up of a knot, 3 nextafter down,
//       4 low margin, 5 high margin, 6 last knot, 7 first knot + ulp, 8 ku exactly
inline double gen_coord_inside(Chooser& ch, const DimSpec& d, int* kind_out = nullptr) {
  const auto& k = d.knots; int n = (int)k.size();
  double lo = k[0], hi = k[n - 1];
  for (int attempt = 0; attempt < 8; attempt++) {
    int kind = (int)ch.draw(0, 8);
    double x;
    switch (kind) {
      case 0: { int i = (int)ch.draw(0, n - 2); int num = 1 + (int)ch.draw(0, 6); x = k[i] + (k[i + 1] - k[i]) * num / 8.0; break; }
      case 1: x = k[ch.draw(1, n - 1)]; break;
      case 2: x = nextafter(k[ch.draw(0, n - 2)], INFINITY); break;
      case 3: x = nextafter(k[ch.draw(1, n - 1)], -INFINITY); break;
      case 4: { int i = (int)ch.draw(0, d.order); if (i + 1 >= n) i = n - 2; x = k[i] + (k[i + 1] - k[i]) * (1 + (double)ch.draw(0, 2)) / 4.0; break; }
      case 5: { int i = n - 2 - (int)ch.draw(0, d.order); if (i < 0) i = 0; x = k[i] + (k[i + 1] - k[i]) * (1 + (double)ch.draw(0, 2)) / 4.0; break; }
      case 6: x = k[n - 1]; break;
      case 7: x = nextafter(k[0], INFINITY); break;
      default: x = k[n - d.order - 1]; break;
    }
    if (x > lo && x <= hi) { if (kind_out) *kind_out = kind; return x; }
  }
  if (kind_out) *kind_out = 6;
  return hi;
}

// Known finding C01/zero-width-support: when the fully supported range of a dimension has zero
// width (k[order] == k[nknots-order-1]) evaluation exactly at that knot yields NaN.
inline bool zero_width_support(const DimSpec& d) { return d.knots[d.order] == d.knots[d.knots.size() - d.order - 1]; }
// Moves a coordinate off the excluded class; returns true if it had to.
inline bool avoid_known_point(const DimSpec& d, double& x) {
  // The finding behind this exclusion (C01-zero-width-support) has been repaired in /repo; nothing is excluded any more.
  // The function is kept so that the class can be re-excluded by a single line if the repair is ever reverted.
  return false;
  if (!exclude_known()) return false;
  if (zero_width_support(d) && x == d.knots[d.order]) {
    double y = nextafter(x, INFINITY);
    if (!(y <= d.knots.back())) y = nextafter(x, -INFINITY);
    x = y;
    return true;
  }
  return false;
}

inline const char* coord_kind_name(int k) {
  static const char* n[] = {"interior", "on_knot", "knot_plus_ulp", "knot_minus_ulp", "low_margin", "high_margin", "last_knot", "first_knot_plus_ulp", "at_ku"};
  return n[k];
}

// order patterns that hit every row of get_evaluator()'s dispatch (FixedOrder<D,2|3>, the two KnownOrder patterns,
// the per-dimension-count generic kernels, the >8-dimension fallback)
inline TableSpec gen_pattern_spec(Chooser& ch) {
  // order patterns of the property's quantifier, drawn so every dispatch row is hit
  int nd = ch.range(1, 9);
  int pat = (int)ch.draw(0, 9);
  std::vector<unsigned> orders;
  if (pat <= 1) orders.assign(nd, 2);
  else if (pat <= 3) orders.assign(nd, 3);
  else if (pat == 4) { unsigned k = (unsigned)ch.draw(0, 5); orders.assign(nd, k); }
  else if (pat == 5) { orders = {2, 2, 2, 3, 2, 2}; nd = 6; }
  else if (pat == 6) { orders = {2, 2, 2, 5, 2, 2}; nd = 6; }
  else { for (int d = 0; d < nd; d++) orders.push_back((unsigned)ch.draw(0, nd >= 7 ? 2 : (nd >= 5 ? 3 : 5))); }
  // keep the block size manageable
  uint64_t terms = 1;
  for (auto& o : orders) { if (terms * (o + 1) > 60000) o = 1; terms *= (o + 1); }
  TableSpec s;
  KnotOpts ko; ko.extra_max = nd >= 6 ? 1 : (nd >= 4 ? 3 : 8);
  std::string kc;
  for (int d = 0; d < nd; d++) {
    DimSpec ds; ds.order = orders[d];
    std::string c; ds.knots = gen_knots(ch, ds.order, ko, &c);
    if (d) kc += "|"; kc += c;
    ds.ext_lo = ds.knots[ds.order]; ds.ext_hi = ds.knots[ds.knots.size() - ds.order - 1];
    s.dims.push_back(ds);
  }
  for (int guard = 0; s.ncoeff() > 300000 && guard < 1000; guard++) {
    size_t big = 0;
    for (size_t d = 1; d < s.dims.size(); d++) if (s.dims[d].nfun() > s.dims[big].nfun()) big = d;
    if (s.dims[big].knots.size() <= 2 * s.dims[big].order + 2) break;
    s.dims[big].knots.pop_back();
  }
  s.knot_class = kc;
  gen_coeffs(ch, s, ch.coin(1, 6) ? 0 : 2);
  return s;
}


}  // namespace vf
