// vf_fuzz.hpp — libFuzzer back end.  The fuzz input is decoded by the same property body through
// a ByteChooser (structure-aware layer); an input starting with 0xFF is instead handed to the body
// as raw file bytes (byte-level fallback, so plain mutation of real files still works).
// The semantic oracle lives in the body; a violated property dumps the counters and traps.
#pragma once
#include "vf.hpp"
#include "vf_rc.hpp"

namespace vf {

struct ByteChooser : Chooser {
  const uint8_t* p; size_t n, pos = 0;
  ByteChooser(const uint8_t* d, size_t s) : p(d), n(s) {}
  uint64_t raw(uint64_t lo, uint64_t hi) override {
    uint64_t span = hi - lo;
    int nb = span <= 0xff ? 1 : span <= 0xffff ? 2 : span <= 0xffffffffULL ? 4 : 8;
    uint64_t v = 0;
    for (int i = 0; i < nb; i++) { v = (v << 8) | (pos < n ? p[pos] : 0); pos++; }
    return span == UINT64_MAX ? v : lo + v % (span + 1);
  }
};

struct FuzzState {
  Stats st; std::string stats_path, replay_dir; bool inited = false;
  static FuzzState& get() { static FuzzState s; return s; }
  void dump() { if (!stats_path.empty()) { std::string tmp = stats_path + ".tmp"; FILE* f = fopen(tmp.c_str(), "w"); if (f) { fputs("[", f); std::string s = st.json(); fwrite(s.data(), 1, s.size(), f); fputs("]\n", f); fclose(f); rename(tmp.c_str(), stats_path.c_str()); } } }
};

using BytesBody = std::function<CaseResult(Chooser&, Stats*, std::vector<unsigned char>, const std::string&, int, uint64_t)>;

inline int fuzz_one(const char* prop, const char* name, const Body& body, const BytesBody& raw_body, const uint8_t* data, size_t size) {
  FuzzState& fs = FuzzState::get();
  if (!fs.inited) {
    fs.inited = true; fs.st.prop = prop; fs.st.name = name;
    if (const char* e = getenv("VF_FUZZ_STATS")) fs.stats_path = e;
    if (const char* e = getenv("VF_FUZZ_REPLAY_DIR")) fs.replay_dir = e;
    fs.st.notes["mode"] = "libFuzzer, in-process";
    atexit([]() { FuzzState::get().dump(); });
  }
  CaseResult r;
  std::vector<uint64_t> draws;
  if (size > 0 && data[0] == 0xFF && raw_body) {
    ByteChooser ch(nullptr, 0);
    std::vector<unsigned char> bytes(data + 1, data + size);
    Hasher h; for (size_t i = 0; i < bytes.size() && i < 4096; i++) h.add(bytes[i]);
    fs.st.label("input:raw_bytes");
    r = raw_body(ch, &fs.st, bytes, "[\"raw fuzz input\"]", 1, h.h);
  } else {
    ByteChooser ch(data, size);
    fs.st.label("input:structured");
    r = body(ch, &fs.st);
    draws = ch.rec;
  }
  if (!r.discard) fs.st.cases++;
  if (!r.fail.empty()) {
    fs.st.failures++;
    fprintf(stderr, "PROPERTY-VIOLATION %s/%s: %s\n", prop, name, r.fail.c_str());
    if (!fs.replay_dir.empty() && !draws.empty()) { ReplayFile rf; rf.prop = prop; rf.name = name; rf.draws = draws; rf.why = r.fail; rf.json = r.json; write_replay(fs.replay_dir + "/" + name + ".case", rf); }
    fs.dump();
    __builtin_trap();
  }
  if ((fs.st.cases & 0x3fff) == 0) fs.dump();
  return 0;
}

}  // namespace vf

#define VF_FUZZ_TARGET(PROP, NAME, BODY, RAWBODY) \
  extern "C" int LLVMFuzzerTestOneInput(const uint8_t* data, size_t size) { return vf::fuzz_one(PROP, NAME, BODY, RAWBODY, data, size); }
