// ref.hpp — independent reference for tensor-product B-spline evaluation (R1/R2 of DESIGN.md).
// Textbook Cox–de Boor recursion in long double, evaluated by plain recursion on the span
// selected by the documented one-sided convention.  Shares no code with the library.
#pragma once
#include "vf.hpp"

namespace vf {
typedef long double LD;

struct VM { LD v, m; };  // value and magnitude (sum of absolute values of all terms that entered v)

// Span selection (property C01): below the upper end ku of the fully supported range use the
// piece to the right of a knot, from ku upwards the piece to the left.
// Returns j with k[j] < k[j+1], or -1 when x is outside (k_first, k_last].
inline int ref_span(const std::vector<double>& k, int order, double x) {
  int nk = (int)k.size();
  if (!(x > k[0]) || !(x <= k[nk - 1])) return -1;
  double ku = k[nk - order - 1];
  if (x < ku) {
    for (int j = 0; j + 1 < nk; j++) if (k[j] <= x && x < k[j + 1]) return j;
  } else {
    for (int j = 0; j + 1 < nk; j++) if (k[j] < x && x <= k[j + 1]) return j;
  }
  return -1;
}

// N_{i,m} restricted to span j (order-0 functions are indicator functions of spans).
inline VM refN(const std::vector<double>& k, int i, int m, int j, double x) {
  if (m == 0) { LD v = (i == j) ? 1.0L : 0.0L; return {v, v}; }
  VM a = refN(k, i, m - 1, j, x), b = refN(k, i + 1, m - 1, j, x);
  LD d1 = (LD)k[i + m] - (LD)k[i], d2 = (LD)k[i + m + 1] - (LD)k[i + 1];
  LD w1 = d1 > 0 ? ((LD)x - (LD)k[i]) / d1 : 0.0L;
  LD w2 = d2 > 0 ? ((LD)k[i + m + 1] - (LD)x) / d2 : 0.0L;
  return {w1 * a.v + w2 * b.v, fabsl(w1) * a.m + fabsl(w2) * b.m};
}
// d-th derivative of N_{i,m} on span j.
inline VM refDN(const std::vector<double>& k, int i, int m, int j, double x, int d) {
  if (d == 0) return refN(k, i, m, j, x);
  if (m == 0) return {0.0L, 0.0L};
  VM a = refDN(k, i, m - 1, j, x, d - 1), b = refDN(k, i + 1, m - 1, j, x, d - 1);
  LD d1 = (LD)k[i + m] - (LD)k[i], d2 = (LD)k[i + m + 1] - (LD)k[i + 1];
  LD w1 = d1 > 0 ? (LD)m / d1 : 0.0L;
  LD w2 = d2 > 0 ? (LD)m / d2 : 0.0L;
  return {w1 * a.v - w2 * b.v, fabsl(w1) * a.m + fabsl(w2) * b.m};
}

struct RefDim {            // one dimension of a table, as the reference sees it
  std::vector<double> knots;
  int order;
  int nfun() const { return (int)knots.size() - order - 1; }
};

struct BasisSet { int first; std::vector<VM> vals; };  // functions first..first+size-1 are (possibly) non-zero
inline bool ref_basis(const RefDim& d, double x, int deriv, BasisSet& out) {
  int j = ref_span(d.knots, d.order, x);
  if (j < 0) return false;
  int lo = std::max(0, j - d.order), hi = std::min(j, d.nfun() - 1);
  out.first = lo;
  out.vals.clear();
  for (int i = lo; i <= hi; i++) out.vals.push_back(refDN(d.knots, i, d.order, j, x, deriv));
  return true;
}

// Tensor-product sum  S = sum_I c[I] * prod_d D^{deriv_d} N_{I_d}(x_d); C-order coefficient array.
// Returns false when some coordinate is outside (k_first, k_last].
// Range information for the working-precision guard: the largest / smallest magnitude any partial
// product of basis values can take (the library multiplies basis values dimension by dimension in
// the working precision, so a partial product outside the representable range over- or underflows
// although the final sum would be representable).
struct RefRange { LD prefix_max = 1, prefix_min = 1, elem_max = 0, elem_min = INFINITY; };
inline bool ref_eval(const std::vector<RefDim>& dims, const std::vector<float>& coeff,
                     const double* x, const int* deriv, VM& out, uint64_t* nterms = nullptr, RefRange* rr = nullptr) {
  size_t nd = dims.size();
  std::vector<BasisSet> bs(nd);
  for (size_t d = 0; d < nd; d++)
    if (!ref_basis(dims[d], x[d], deriv ? deriv[d] : 0, bs[d])) return false;
  if (rr) {
    LD pmax = 1, pmin = 1; rr->prefix_max = 1; rr->prefix_min = 1; rr->elem_max = 0; rr->elem_min = INFINITY;
    for (size_t d = 0; d < nd; d++) {
      LD bmax = 0, bmin = INFINITY;
      for (auto& v : bs[d].vals) { bmax = std::max(bmax, v.m); if (v.m > 0) bmin = std::min(bmin, std::min(v.m, fabsl(v.v) > 0 ? fabsl(v.v) : v.m)); }
      if (bmax == 0) { bmax = 1; bmin = 1; }
      rr->elem_max = std::max(rr->elem_max, bmax); rr->elem_min = std::min(rr->elem_min, bmin);
      pmax *= bmax; pmin *= bmin;
      rr->prefix_max = std::max(rr->prefix_max, pmax); rr->prefix_min = std::min(rr->prefix_min, pmin);
    }
  }
  std::vector<uint64_t> stride(nd);
  uint64_t s = 1;
  for (size_t d = nd; d-- > 0;) { stride[d] = s; s *= (uint64_t)dims[d].nfun(); }
  std::vector<size_t> idx(nd, 0);
  LD sum = 0, mag = 0;
  uint64_t terms = 0;
  for (size_t d = 0; d < nd; d++) if (bs[d].vals.empty()) { out = {0, 0}; if (nterms) *nterms = 0; return true; }
  while (true) {
    LD pv = 1, pm = 1;
    uint64_t pos = 0;
    for (size_t d = 0; d < nd; d++) {
      pv *= bs[d].vals[idx[d]].v; pm *= bs[d].vals[idx[d]].m;
      pos += (uint64_t)(bs[d].first + (int)idx[d]) * stride[d];
    }
    LD c = (LD)coeff[pos];
    sum += c * pv; mag += fabsl(c) * pm; terms++;
    size_t d = nd;
    while (d-- > 0) { if (++idx[d] < bs[d].vals.size()) break; idx[d] = 0; }
    if (d == (size_t)-1) break;
  }
  out = {sum, mag};
  if (nterms) *nterms = terms;
  return true;
}

// Self-tests of the oracle (R3).  Returns "" when all hold.
inline std::string ref_selftest() {
  // partition of unity, Marsden (reproduction of x), derivative vs. difference quotient
  std::vector<std::vector<double>> kvs = {
      {0, 1, 2, 3, 4, 5, 6, 7}, {0, 0.5, 0.75, 2, 2, 3, 10, 11, 11.5, 20}, {-3, -1, 0, 0.25, 4, 4.5, 9, 9.5, 12, 13, 17}};
  for (auto& kv : kvs)
    for (int n = 0; n <= 3; n++) {
      if ((int)kv.size() < 2 * n + 2) continue;
      RefDim d{kv, n};
      int nf = d.nfun();
      for (int t = 0; t <= 200; t++) {
        double lo = kv[n], hi = kv[kv.size() - n - 1];
        double x = lo + (hi - lo) * t / 200.0;
        if (!(x > kv[0])) continue;
        BasisSet b;
        if (!ref_basis(d, x, 0, b)) return "selftest: basis lookup failed inside the supported range";
        LD s = 0;
        for (auto& v : b.vals) s += v.v;
        if (fabsl(s - 1) > 1e-15L) return "selftest: partition of unity violated";
        if (n >= 1) {  // Marsden: x = sum_i xi_i N_i, xi_i = (k[i+1]+...+k[i+n])/n
          LD sx = 0;
          for (size_t q = 0; q < b.vals.size(); q++) {
            int i = b.first + (int)q; LD xi = 0;
            for (int r = 1; r <= n; r++) xi += kv[i + r];
            sx += xi / n * b.vals[q].v;
          }
          if (fabsl(sx - x) > 1e-14L * (1 + fabsl((LD)x))) return "selftest: Marsden identity violated";
          // derivative of sum xi_i N_i must be 1 (away from repeated knots too: the sum is the identity map)
          BasisSet bd;
          ref_basis(d, x, 1, bd);
          LD sd = 0;
          for (size_t q = 0; q < bd.vals.size(); q++) {
            int i = bd.first + (int)q; LD xi = 0;
            for (int r = 1; r <= n; r++) xi += kv[i + r];
            sd += xi / n * bd.vals[q].v;
          }
          bool repeated = false;
          for (size_t q = 0; q + 1 < kv.size(); q++) if (kv[q] == kv[q + 1]) repeated = true;
          if (!repeated && fabsl(sd - 1) > 1e-12L) return "selftest: derivative of the identity spline is not 1";
        }
        (void)nf;
      }
    }
  return "";
}

}  // namespace vf
