// alloc.hpp — stateful checking allocator for splinetable<Alloc> (C19, C20).
// Every allocation is entered in a ledger (live blocks with their byte sizes, running and peak byte
// count, allocation counter); every deallocation must match a live block; the k-th allocation can
// be made to throw std::bad_alloc.
#pragma once
#include "vf.hpp"
#include <map>
#include <new>

namespace vf {

struct Ledger {
  std::map<void*, size_t> live;
  size_t cur = 0, peak = 0, nalloc = 0, ndealloc = 0, null_deallocs = 0, size_mismatches = 0;
  long fail_at = -1;  // 1-based allocation index that throws (once)
  bool failed = false;
  std::vector<std::string> errors;
  void* alloc(size_t bytes) {
    nalloc++;
    if (fail_at > 0 && (long)nalloc == fail_at) { failed = true; throw std::bad_alloc(); }
    void* p = malloc(bytes ? bytes : 1);
    if (!p) throw std::bad_alloc();
    live[p] = bytes; cur += bytes; peak = std::max(peak, cur);
    return p;
  }
  void dealloc(void* p, size_t bytes) {
    if (!p) { null_deallocs++; return; }
    ndealloc++;
    auto it = live.find(p);
    if (it == live.end()) { errors.push_back("deallocate of a block that is not live (double free or foreign pointer)"); return; }
    if (it->second != bytes) size_mismatches++;
    cur -= it->second;
    live.erase(it);
    free(p);
  }
  void release_all() { for (auto& kv : live) free(kv.first); live.clear(); cur = 0; }
};

inline Ledger& orphan_ledger() { static Ledger l; return l; }

template <class T> struct CheckedAlloc {
  typedef T value_type;
  Ledger* L;
  CheckedAlloc() : L(&orphan_ledger()) {}
  explicit CheckedAlloc(Ledger* l) : L(l) {}
  template <class U> CheckedAlloc(const CheckedAlloc<U>& o) : L(o.L) {}
  T* allocate(size_t n) { return static_cast<T*>(L->alloc(n * sizeof(T))); }
  void deallocate(T* p, size_t n) { L->dealloc(p, n * sizeof(T)); }
  template <class U> bool operator==(const CheckedAlloc<U>& o) const { return L == o.L; }
  template <class U> bool operator!=(const CheckedAlloc<U>& o) const { return L != o.L; }
};
template <> struct CheckedAlloc<void> {
  typedef void value_type;
  Ledger* L;
  CheckedAlloc() : L(&orphan_ledger()) {}
  explicit CheckedAlloc(Ledger* l) : L(l) {}
  template <class U> CheckedAlloc(const CheckedAlloc<U>& o) : L(o.L) {}
  template <class U> struct rebind { typedef CheckedAlloc<U> other; };
};

}  // namespace vf
