// fitsmut.hpp — structure-aware mutation of spline FITS files (C07, reused by C18/C20 for
// "corrupt buffer" arguments).  Works on the independent HDU model (fits_indep.hpp) and on raw bytes.
#pragma once
#include "spec.hpp"

namespace vf {

inline std::vector<unsigned char> read_whole_file(const std::string& p) {
  std::vector<unsigned char> out;
  FILE* f = fopen(p.c_str(), "rb");
  if (!f) return out;
  unsigned char buf[65536]; size_t n;
  while ((n = fread(buf, 1, sizeof buf, f)) > 0) out.insert(out.end(), buf, buf + n);
  fclose(f);
  return out;
}

struct MutLog { std::vector<std::string> steps; void add(const std::string& s) { steps.push_back(s); } std::string json() const { std::string o = "["; for (size_t i = 0; i < steps.size(); i++) { if (i) o += ","; o += jstr(steps[i]); } return o + "]"; } };

// ---- structured mutations on the HDU list -------------------------------------------------
inline fits::Card* find_card(fits::HDU& h, const std::string& key) { for (auto& c : h.cards) if (c.key == key) return &c; return nullptr; }

inline std::string odd_int(Chooser& ch, long nearby) {
  switch (ch.draw(0, 9)) {
    case 0: return "-1"; case 1: return "0"; case 2: return "2147483647"; case 3: return "2147483648"; case 4: return "4294967295";
    case 5: return std::to_string(nearby + 1); case 6: return std::to_string(nearby - 1); case 7: return std::to_string(nearby * 2 + 3);
    case 8: return "1000000000000"; default: return std::to_string((long)ch.draw(0, 40));
  }
}

inline void set_knot_data(fits::HDU& k, const std::vector<double>& v) { k.data.clear(); for (double d : v) fits::put_f64(k.data, d); k.naxes = {(long)v.size()}; k.bitpix = -64; }
inline std::vector<double> get_knot_data(const fits::HDU& k) { std::vector<double> v; for (size_t i = 0; i + 8 <= k.data.size(); i += 8) v.push_back(fits::get_f64(k.data.data() + i)); return v; }

inline void mutate_structured(Chooser& ch, std::vector<fits::HDU>& hs, MutLog& log) {
  using namespace fits;
  if (hs.empty()) return;
  size_t nd = hs[0].naxes.size();
  int kind = (int)ch.draw(0, 23);
  auto dimpick = [&]() { return nd ? (size_t)ch.draw(0, nd - 1) : 0; };
  switch (kind) {
    case 0: {  // ORDERn odd value
      size_t d = dimpick(); std::string key = "ORDER" + std::to_string(d);
      Card* c = find_card(hs[0], key); if (!c) c = find_card(hs[0], "ORDER");
      if (c) { c->value = odd_int(ch, atol(c->value.c_str())); log.add("set " + c->key + "=" + c->value); }
      break; }
    case 1: {  // delete an ORDER card
      size_t d = dimpick(); std::string key = "ORDER" + std::to_string(d);
      for (size_t i = 0; i < hs[0].cards.size(); i++) if (hs[0].cards[i].key == key) { hs[0].cards.erase(hs[0].cards.begin() + i); log.add("delete " + key); break; }
      break; }
    case 2: {  // add a legacy ORDER card (takes precedence)
      hs[0].cards.insert(hs[0].cards.begin(), icard("ORDER", 0)); hs[0].cards[0].value = odd_int(ch, 2); log.add("insert ORDER=" + hs[0].cards[0].value); break; }
    case 3: {  // NAXISn of the coefficient image (header only; data untouched)
      if (!nd) break; size_t a = dimpick(); std::string v = odd_int(ch, hs[0].naxes[a]);
      long nv = atol(v.c_str()); hs[0].naxes[a] = nv; log.add("set primary NAXIS" + std::to_string(a + 1) + "=" + v); break; }
    case 4: {  // resize coefficient image consistently (data follows header)
      if (!nd) break; size_t a = dimpick(); long nv = std::max<long>(0, hs[0].naxes[a] + ch.range(-2, 2)); hs[0].naxes[a] = nv;
      size_t n = 1; for (long x : hs[0].naxes) n *= (size_t)x; if (n > 200000) n = 200000;
      hs[0].data.assign(4 * n, 0x3f); log.add("resize coefficient axis " + std::to_string(a) + " to " + std::to_string(nv) + " with data"); break; }
    case 5: {  // NAXIS (dimension count) change
      int delta = ch.coin(1, 2) ? 1 : -1;
      if (delta > 0) hs[0].naxes.push_back(1 + (long)ch.draw(0, 2)); else if (!hs[0].naxes.empty()) hs[0].naxes.pop_back();
      log.add(std::string("primary NAXIS ") + (delta > 0 ? "+1" : "-1")); break; }
    case 6: {  // BITPIX of some HDU (header only)
      size_t h = ch.draw(0, hs.size() - 1); static const int bp[] = {8, 16, 32, 64, -32, -64, 7, 0};
      hs[h].bitpix = bp[ch.draw(0, 7)]; log.add("set BITPIX of HDU " + std::to_string(h) + "=" + std::to_string(hs[h].bitpix)); break; }
    case 7: {  // rename an extension
      if (hs.size() < 2) break; size_t h = 1 + ch.draw(0, hs.size() - 2); Card* c = find_card(hs[h], "EXTNAME");
      static const char* names[] = {"KNOTS0", "KNOTS1", "KNOTS9", "EXTENTS", "knots0", "KNOTS", "", "FOO"};
      if (c) { c->value = names[ch.draw(0, 7)]; log.add("rename HDU " + std::to_string(h) + " to '" + c->value + "'"); } break; }
    case 8: {  // drop an extension
      if (hs.size() < 2) break; size_t h = 1 + ch.draw(0, hs.size() - 2); hs.erase(hs.begin() + h); log.add("drop HDU " + std::to_string(h)); break; }
    case 9: {  // duplicate an extension
      if (hs.size() < 2) break; size_t h = 1 + ch.draw(0, hs.size() - 2); hs.insert(hs.begin() + 1 + ch.draw(0, hs.size() - 1), hs[h]); log.add("duplicate HDU " + std::to_string(h)); break; }
    case 10: {  // reorder extensions
      if (hs.size() < 3) break; size_t a = 1 + ch.draw(0, hs.size() - 2), b = 1 + ch.draw(0, hs.size() - 2); std::swap(hs[a], hs[b]); log.add("swap HDUs " + std::to_string(a) + "," + std::to_string(b)); break; }
    case 11: {  // resize a knot vector (consistent header+data): breaks ncoeffs == nknots-order-1
      if (hs.size() < 2) break; size_t h = 1 + ch.draw(0, hs.size() - 2); auto v = get_knot_data(hs[h]);
      int delta = ch.range(-3, 3); if (delta < 0) v.resize(std::max<long>(0, (long)v.size() + delta)); else for (int i = 0; i < delta; i++) v.push_back(v.empty() ? 0 : v.back() + 1);
      set_knot_data(hs[h], v); log.add("resize knot HDU " + std::to_string(h) + " by " + std::to_string(delta)); break; }
    case 12: {  // knot NAXIS1 larger than the data present
      if (hs.size() < 2) break; size_t h = 1 + ch.draw(0, hs.size() - 2); if (hs[h].naxes.empty()) break;
      hs[h].naxes[0] += 1 + (long)ch.draw(0, 1000000); log.add("inflate NAXIS1 of HDU " + std::to_string(h)); break; }
    case 13: {  // non-finite / unsorted / constant knots
      if (hs.size() < 2) break; size_t h = 1 + ch.draw(0, hs.size() - 2); auto v = get_knot_data(hs[h]); if (v.empty()) break;
      int m = (int)ch.draw(0, 5); size_t at = ch.draw(0, v.size() - 1);
      if (m == 0) v[at] = NAN; else if (m == 1) v[at] = INFINITY; else if (m == 2) v[at] = -INFINITY;
      else if (m == 3) std::reverse(v.begin(), v.end()); else if (m == 4) { if (v.size() >= 2) std::swap(v[at], v[(at + 1) % v.size()]); } else std::fill(v.begin(), v.end(), v[0]);
      set_knot_data(hs[h], v); log.add("knot data of HDU " + std::to_string(h) + " variant " + std::to_string(m)); break; }
    case 14: {  // knots stored as float / int image (consistent)
      if (hs.size() < 2) break; size_t h = 1 + ch.draw(0, hs.size() - 2); auto v = get_knot_data(hs[h]);
      hs[h].data.clear();
      if (ch.coin(1, 2)) { hs[h].bitpix = -32; for (double d : v) put_f32(hs[h].data, (float)d); }
      else { hs[h].bitpix = 16; for (double d : v) { int16_t s = (int16_t)std::max(-30000.0, std::min(30000.0, d)); put_be(hs[h].data, &s, 2); } }
      log.add("knot HDU " + std::to_string(h) + " stored with BITPIX " + std::to_string(hs[h].bitpix)); break; }
    case 15: {  // foreign HDU
      HDU f; f.primary = false; int m = (int)ch.draw(0, 2);
      if (m == 0) { f.xtension = "BINTABLE"; f.bitpix = 8; f.naxes = {8, 3}; f.cards.push_back(icard("TFIELDS", 1)); f.cards.push_back(scard("TFORM1", "1D")); f.cards.push_back(scard("EXTNAME", ch.coin(1, 2) ? "KNOTS0" : "EXTENTS")); f.data.assign(24, 0); }
      else if (m == 1) { f.xtension = "TABLE"; f.bitpix = 8; f.naxes = {10, 2}; f.cards.push_back(icard("TFIELDS", 1)); f.cards.push_back(icard("TBCOL1", 1)); f.cards.push_back(scard("TFORM1", "F10.3")); f.cards.push_back(scard("EXTNAME", "KNOTS0")); f.data.assign(20, ' '); }
      else { f.xtension = "IMAGE"; f.bitpix = -64; f.naxes = {}; f.cards.push_back(scard("EXTNAME", ch.coin(1, 2) ? "KNOTS0" : "EXTENTS")); }
      hs.insert(hs.begin() + 1 + ch.draw(0, hs.size() - 1), f); log.add("insert foreign HDU kind " + std::to_string(m)); break; }
    case 16: {  // PERIODn as string / garbage
      Card* c = find_card(hs[0], "PERIOD" + std::to_string(dimpick())); if (c) { c->kind = 'S'; c->value = "abc"; log.add("PERIOD as string"); } break; }
    case 17: {  // EXTENTS of wrong length
      for (auto& h : hs) { Card* c = find_card(h, "EXTNAME"); if (c && c->value == "EXTENTS") { auto v = get_knot_data(h); v.resize(std::max<long>(0, (long)v.size() + ch.range(-2, 2))); set_knot_data(h, v); log.add("resize EXTENTS"); } } break; }
    case 18: {  // duplicate a header card
      if (hs[0].cards.empty()) break; size_t i = ch.draw(0, hs[0].cards.size() - 1); hs[0].cards.push_back(hs[0].cards[i]); log.add("duplicate card " + hs[0].cards[i].key); break; }
    case 19: {  // primary is not an image at all / zero-dimensional
      hs[0].naxes.clear(); hs[0].data.clear(); log.add("primary NAXIS=0"); break; }
    case 20: {  // many aux-like cards incl. odd ones
      int n = 1 + (int)ch.draw(0, 40); for (int i = 0; i < n; i++) { Card c = scard("K" + std::to_string(i), std::string(ch.draw(0, 68), 'v')); hs[0].cards.push_back(c); } log.add("add " + std::to_string(n) + " aux cards"); break; }
    case 22: case 23: {  // self-consistent table at (or just below) the boundary of validity: knots AND image axis changed together
      if (!nd || hs.size() < 1 + nd) break;
      size_t d = dimpick();
      Card* oc = find_card(hs[0], "ORDER" + std::to_string(d)); if (!oc) break;
      long o = atol(oc->value.c_str()); if (o < 0 || o > 20) break;
      // the knot HDU of dimension d
      fits::HDU* kh = nullptr; for (auto& h : hs) { Card* c = find_card(h, "EXTNAME"); if (c && c->value == "KNOTS" + std::to_string(d)) kh = &h; }
      if (!kh) break;
      static const int delta[] = {1, 0, -1, 2};   // target nknots = 2*o + delta  (2o+2 is the smallest valid count)
      long nk = kind == 22 ? 2 * o + delta[ch.draw(0, 3)] : o + 2 + (long)ch.draw(0, 1);
      if (nk < 1) nk = 1;
      auto v = get_knot_data(*kh);
      while ((long)v.size() < nk) v.push_back(v.empty() ? 0.0 : v.back() + 1.0);
      v.resize((size_t)nk);
      set_knot_data(*kh, v);
      long nax = std::max<long>(0, nk - o - 1);
      hs[0].naxes[nd - 1 - d] = nax;             // image axes are stored reversed
      size_t n = 1; for (long x : hs[0].naxes) n *= (size_t)std::max<long>(0, x); if (n > 200000) n = 200000;
      hs[0].data.clear(); for (size_t i = 0; i < n; i++) fits::put_f32(hs[0].data, 1.0f + (float)(i % 7));
      log.add("consistent dimension " + std::to_string(d) + ": order " + std::to_string(o) + ", " + std::to_string(nk) + " knots, " + std::to_string(nax) + " coefficients");
      break; }
    default: {  // raw card text (quotes unbalanced etc.)
      Card c; c.kind = 'X'; static const char* raws[] = {"AUX1    = 'unterminated", "AUX2    = ''''''''", "HIERARCH   = 'x'", "AUX3    =", "        = 'blank key'", "AUX4    = 'a''b''''c'", "ORDER0  = 'two'"};
      c.value = raws[ch.draw(0, 6)]; hs[0].cards.push_back(c); log.add(std::string("raw card ") + c.value); break; }
  }
}

// ---- byte-level mutations ---------------------------------------------------------------------
inline void mutate_bytes(Chooser& ch, std::vector<unsigned char>& b, MutLog& log) {
  int kind = (int)ch.draw(0, 6);
  if (b.empty()) { b.assign(2880, ' '); log.add("empty -> blank block"); return; }
  switch (kind) {
    case 0: {  // flip bytes
      int n = 1 + (int)ch.draw(0, 7);
      for (int i = 0; i < n; i++) { size_t at = ch.draw(0, b.size() - 1); b[at] ^= (unsigned char)(1u << ch.draw(0, 7)); }
      log.add("flip " + std::to_string(n) + " bits"); break; }
    case 1: {  // overwrite inside the first header block (where the magic lives)
      size_t at = ch.draw(0, std::min<size_t>(b.size(), 2880) - 1); b[at] = (unsigned char)ch.draw(0, 255); log.add("overwrite header byte " + std::to_string(at)); break; }
    case 2: {  // truncate at a block boundary +-1
      size_t blocks = b.size() / 2880; size_t k = ch.draw(0, blocks); long off = (long)(k * 2880) + ch.range(-1, 1);
      if (off < 0) off = 0; if ((size_t)off > b.size()) off = (long)b.size(); b.resize((size_t)off); log.add("truncate to " + std::to_string(off)); break; }
    case 3: { size_t off = ch.draw(0, b.size()); b.resize(off); log.add("truncate to " + std::to_string(off)); break; }
    case 4: {  // remove the END card of the first header
      for (size_t i = 0; i + 80 <= b.size(); i += 80) if (memcmp(&b[i], "END     ", 8) == 0) { memset(&b[i], ' ', 80); log.add("erase END card at " + std::to_string(i)); break; }
      break; }
    case 5: {  // splice: copy a block over another
      size_t blocks = b.size() / 2880; if (blocks < 2) break; size_t a = ch.draw(0, blocks - 1), c = ch.draw(0, blocks - 1);
      memmove(&b[a * 2880], &b[c * 2880], 2880); log.add("copy block " + std::to_string(c) + " over " + std::to_string(a)); break; }
    default: {  // append garbage / extra blocks
      size_t n = ch.draw(1, 300); for (size_t i = 0; i < n; i++) b.push_back((unsigned char)(ch.draw(0, 255))); log.add("append " + std::to_string(n) + " bytes"); break; }
  }
}

// A generated possibly-corrupt file.  base: 0 generated spec, 1 shipped file, 2 garbage, 3 valid non-spline FITS
inline std::vector<unsigned char> gen_mutated_file(Chooser& ch, MutLog& log, TableSpec* base_spec = nullptr, int* nmut = nullptr) {
  int base = (int)ch.draw(0, 11);
  std::vector<unsigned char> bytes;
  int count = 0;
  if (base <= 7) {
    SpecOpts so; so.max_ndim = 4; so.max_coeffs = 600; so.max_terms = 300; so.ko.extra_max = 4;
    // now and then a table of many dimensions (5..9, low orders): the evaluation battery on loaded tables then also
    // meets the dimension limits of the SIMD gradient and the >8-dimension fallback kernels
    if (gen_version() >= 2 && ch.coin(1, 8)) { so.min_ndim = 5; so.max_ndim = 9; so.max_order = 1; so.max_terms = 512; so.max_coeffs = 2000; so.ko.extra_max = 1; }
    TableSpec s = gen_spec(ch, so);
    if (ch.coin(1, 3)) s.aux.push_back({"AUXKEY", "auxvalue"});
    if (base_spec) *base_spec = s;
    log.add("base: generated " + std::to_string(s.ndim()) + "-d spec");
    std::vector<fits::HDU> hs = spec_to_hdus(s);
    int n = (int)ch.draw(0, 3);
    for (int i = 0; i < n; i++) { mutate_structured(ch, hs, log); count++; }
    bytes = fits::serialize(hs);
  } else if (base <= 9) {
    static const char* files[] = {"test_spline_1d.fits", "test_spline_2d.fits", "test_spline_1d_nco.fits", "test_spline_3d.fits"};
    std::string repo = getenv("VERIF_REPO") ? getenv("VERIF_REPO") : "/repo";
    std::string f = files[ch.draw(0, 3)];
    bytes = read_whole_file(repo + "/test/test_data/" + f);
    log.add("base: shipped " + f);
  } else if (base == 10) {
    size_t n = ch.draw(0, 700); for (size_t i = 0; i < n; i++) bytes.push_back((unsigned char)ch.draw(0, 255)); log.add("base: garbage of " + std::to_string(n) + " bytes"); count++;
  } else {
    fits::HDU p; p.primary = true; p.bitpix = 16; p.naxes = {4, 3}; p.data.assign(24, 1); p.cards.push_back(fits::scard("OBJECT", "not a spline"));
    bytes = fits::serialize({p}); log.add("base: valid FITS image that is not a spline table"); count++;
  }
  int nb = (int)ch.draw(0, 9); nb = nb < 6 ? 0 : nb - 5;  // 60 % no byte-level damage
  for (int i = 0; i < nb; i++) { mutate_bytes(ch, bytes, log); count++; }
  if (nmut) *nmut = count;
  return bytes;
}

}  // namespace vf
