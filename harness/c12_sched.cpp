// C12 — the parallel line search terminates with the same result under every thread schedule.
// The harness owns the schedule: src/fitter/cholesky_solve.c is compiled with its pthread calls
// renamed to the vsched shim (vsched.cpp).  walk_descents is called directly on generated
// line-search problems; schedules are enumerated exhaustively by stateless DFS over the choice
// points (small configurations) or sampled by PCT / uniform random policies (larger ones), one
// forked child per schedule.  Oracle: every schedule terminates (no state with unfinished threads
// and none runnable; bounded number of choice points) and returns outputs bit-identical to the
// canonical schedule's.
#include "common/vf_rc.hpp"
#include "vsched.h"
#include <cholmod.h>
#include "cholesky_solve.h"  // /repo/src/fitter (added to the include path for this unit)

using namespace vf;

namespace {

struct Problem { int n; std::vector<double> A, b, x, xF; int nthreads; int nalpha; int cpu_limit = -1; };

Problem gen_problem(Chooser& ch, int max_threads, int max_alpha) {
  Problem p;
  p.n = 1 + (int)ch.draw(0, 5);
  int nneg = (int)ch.draw(0, std::min(p.n, max_alpha - 2));
  static const double pos[] = {0.5, 1, 2, 3.5, 0.25, 7};
  static const double neg[] = {-0.5, -1, -3, -0.125, -10};
  p.x.resize(p.n); p.xF.resize(p.n);
  for (int i = 0; i < p.n; i++) { p.x[i] = pos[ch.draw(0, 5)]; p.xF[i] = i < nneg ? neg[ch.draw(0, 4)] : pos[ch.draw(0, 5)]; }
  std::vector<double> M(p.n * p.n);
  for (auto& v : M) v = (double)ch.range(-2, 2);
  p.A.assign(p.n * p.n, 0.0);
  for (int i = 0; i < p.n; i++) for (int j = 0; j < p.n; j++) { double s = i == j ? 1.0 : 0.0; for (int k = 0; k < p.n; k++) s += M[k * p.n + i] * M[k * p.n + j]; p.A[i * p.n + j] = s; }
  p.b.resize(p.n); for (auto& v : p.b) v = (double)ch.range(-4, 4);
  p.nthreads = 1 + (int)ch.draw(0, max_threads - 1);
  p.nalpha = 2 + nneg;
  // fewer usable CPUs than workers: pinning worker k to CPU k fails for k >= cpu_limit (the line search has to go on unpinned)
  static const int limits[] = {-1, -1, 1, 2};
  p.cpu_limit = gen_version() >= 2 ? limits[ch.draw(0, 3)] : -1;
  return p;
}

struct RunResult { std::string outcome; std::string outputs; std::vector<std::pair<int, int>> trace; long window_hits = 0, switches = 0; };

RunResult run_schedule(const Problem& p, const std::vector<int>& prefix, int policy, uint64_t seed, int preempt_bound = -1) {
  RunResult rr;
  int fds[2];
  if (pipe(fds) != 0) { rr.outcome = "HARNESS-pipe"; return rr; }
  fflush(stdout); fflush(stderr);
  pid_t pid = fork();
  if (pid == 0) {
    close(fds[0]);
    alarm(60);
    setenv("OMP_NUM_THREADS", std::to_string(p.nthreads).c_str(), 1);
    unsetenv("GOTO_NUM_THREADS");
    vs::Control& c = vs::control();
    c.prefix = prefix; c.policy = policy; c.seed = seed; c.report_fd = fds[1]; c.pct_changes = 2; c.max_steps = 4000; c.preempt_bound = preempt_bound; c.cpu_limit = p.cpu_limit;
    vs::reset_for_child();
    cholmod_common cc; cholmod_l_start(&cc);
    cholmod_dense* Ad = cholmod_l_allocate_dense(p.n, p.n, p.n, CHOLMOD_REAL, &cc);
    for (int i = 0; i < p.n; i++) for (int j = 0; j < p.n; j++) ((double*)Ad->x)[j * p.n + i] = p.A[i * p.n + j];
    cholmod_sparse* As = cholmod_l_dense_to_sparse(Ad, 1, &cc);
    cholmod_dense* b = cholmod_l_allocate_dense(p.n, 1, p.n, CHOLMOD_REAL, &cc);
    cholmod_dense* x = cholmod_l_allocate_dense(p.n, 1, p.n, CHOLMOD_REAL, &cc);
    cholmod_dense* xF = cholmod_l_allocate_dense(p.n, 1, p.n, CHOLMOD_REAL, &cc);
    std::vector<long> F(p.n), H1(p.n + 2, -1);
    for (int i = 0; i < p.n; i++) { ((double*)b->x)[i] = p.b[i]; ((double*)x->x)[i] = p.x[i]; ((double*)xF->x)[i] = p.xF[i]; F[i] = i; }
    long nF = p.n, nH1 = 0; double residual = 1e300; int calcs = 0;
    int feasible = walk_descents(As, b, x, xF, F.data(), &nF, H1.data(), &nH1, &residual, &calcs, 0, &cc);
    std::string msg = "O DONE\nR " + std::to_string(feasible) + " " + std::to_string(nH1);
    char buf[64];
    for (long i = 0; i < nH1; i++) { msg += " h" + std::to_string(H1[i]); }
    for (int i = 0; i < p.n; i++) { snprintf(buf, sizeof buf, " %a", ((double*)x->x)[i]); msg += buf; }
    snprintf(buf, sizeof buf, " r%a", residual); msg += buf;
    msg += "\nW " + std::to_string(c.window_hits) + " " + std::to_string(c.switches) + "\nT";
    for (auto& t : c.trace) msg += " " + std::to_string(t.first) + "/" + std::to_string(t.second);
    msg += "\n";
    size_t off = 0;
    while (off < msg.size()) { ssize_t w = write(fds[1], msg.data() + off, msg.size() - off); if (w <= 0) break; off += (size_t)w; }
    _exit(0);
  }
  close(fds[1]);
  std::string got; char buf[8192]; ssize_t n;
  while ((n = read(fds[0], buf, sizeof buf)) > 0) got.append(buf, (size_t)n);
  close(fds[0]);
  int status = 0; waitpid(pid, &status, 0);
  std::istringstream in(got); std::string line;
  while (std::getline(in, line)) {
    if (line.rfind("O ", 0) == 0) rr.outcome = line.substr(2);
    else if (line.rfind("R ", 0) == 0) rr.outputs = line.substr(2);
    else if (line.rfind("W ", 0) == 0) sscanf(line.c_str() + 2, "%ld %ld", &rr.window_hits, &rr.switches);
    else if (line.rfind("T", 0) == 0) { std::istringstream ts(line.substr(1)); std::string tok; while (ts >> tok) { int a = 0, b = 0; sscanf(tok.c_str(), "%d/%d", &a, &b); rr.trace.push_back({a, b}); } }
  }
  if (rr.outcome.empty()) {
    if (WIFSIGNALED(status)) rr.outcome = WTERMSIG(status) == SIGALRM ? "TIMEOUT" : "SIGNAL" + std::to_string(WTERMSIG(status));
    else rr.outcome = "NOREPORT(exit " + std::to_string(WEXITSTATUS(status)) + ")";
  }
  return rr;
}

std::string prefix_str(const std::vector<int>& p) { std::string s = "["; for (size_t i = 0; i < p.size(); i++) { if (i) s += ","; s += std::to_string(p[i]); } return s + "]"; }

std::string problem_json(const Problem& p) {
  std::ostringstream o;
  o << "{\"n\":" << p.n << ",\"workers\":" << p.nthreads << ",\"trial_steps\":" << p.nalpha << ",\"blocks\":" << (p.nalpha + p.nthreads - 1) / p.nthreads
    << ",\"usable_cpus\":" << p.cpu_limit << ",\"x\":" << jarr(p.x) << ",\"x_F\":" << jarr(p.xF) << "}";
  return o.str();
}

// exhaustive (or budgeted) DFS over the schedule tree of one problem
CaseResult body_dfs(Chooser& ch, Stats* st) {
  CaseResult r;
  bool thorough = g_opts().tier == "thorough";
  // smallest configurations: 1-2 workers, 2-4 trial steps (1-3 blocks)
  // quick: preemption-bounded (<= 2) DFS, exhaustive within the bound; thorough: half the cases unbounded on the smallest configurations
  bool bounded = !thorough || ch.coin(1, 2);
  int pb = bounded ? (int)g_opts().getl("preempt-bound", thorough ? 3 : 2) : -1;
  Problem p = bounded ? gen_problem(ch, 3, thorough ? 6 : 4) : gen_problem(ch, 2, 3);
  long budget = g_opts().getl("dfs-budget", thorough ? 450000 : 4000);
  std::vector<int> prefix;
  std::string canonical;
  long leaves = 0, window = 0, maxdepth = 0; bool exhaustive = false;
  std::ostringstream js; js << "{\"mode\":\"dfs\",\"problem\":" << problem_json(p);
  while (leaves < budget) {
    RunResult rr = run_schedule(p, prefix, 0, 1, pb);
    leaves++;
    if (rr.window_hits) window++;
    maxdepth = std::max<long>(maxdepth, (long)rr.trace.size());
    if (st) { st->label("schedules"); if (rr.window_hits || rr.switches >= 2) { Hasher h; h.add(mix64(p.n * 131 + p.nthreads)); for (double v : p.x) h.addd(v); for (double v : p.xF) h.addd(v); for (auto& t : rr.trace) h.add(t.first); st->nontriv(h.h); } if (rr.window_hits) st->label("schedule:worker_finished_in_coordinator_window"); }
    if (rr.outcome != "DONE") { r.fail = "schedule " + prefix_str(prefix) + " (DFS leaf " + std::to_string(leaves) + ") ended in " + rr.outcome + " (" + std::to_string(p.nthreads) + " worker(s), " + std::to_string(p.nalpha) + " trial steps)"; break; }
    if (canonical.empty()) canonical = rr.outputs;
    else if (rr.outputs != canonical) { r.fail = "schedule " + prefix_str(prefix) + " returns different outputs: " + rr.outputs + " vs canonical " + canonical; break; }
    long k = (long)rr.trace.size() - 1;
    while (k >= 0 && rr.trace[k].first + 1 >= rr.trace[k].second) k--;
    if (k < 0) { exhaustive = true; break; }
    prefix.clear();
    for (long i = 0; i < k; i++) prefix.push_back(rr.trace[i].first);
    prefix.push_back(rr.trace[k].first + 1);
  }
  js << ",\"preemption_bound\":" << pb << ",\"leaves\":" << leaves << ",\"exhaustive\":" << (exhaustive ? "true" : "false") << ",\"max_choice_points\":" << maxdepth << ",\"window_schedules\":" << window << "}";
  r.json = js.str();
  if (st) {
    st->label(exhaustive ? (pb < 0 ? "dfs:exhaustive_tree" : "dfs:exhaustive_within_preemption_bound") : "dfs:budget_exhausted");
    st->label("config:" + std::to_string(p.nthreads) + "w_x_" + std::to_string((p.nalpha + p.nthreads - 1) / p.nthreads) + "blocks");
    st->sample(r.json);
  }
  return r;
}

// PCT / random schedules over larger configurations
CaseResult body_pct(Chooser& ch, Stats* st) {
  CaseResult r;
  bool thorough = g_opts().tier == "thorough";
  Problem p = gen_problem(ch, 4, 8);
  long K = g_opts().getl("pct-runs", thorough ? 3000 : 300);
  uint64_t base = ch.draw(1, 1u << 30);
  RunResult can = run_schedule(p, {}, 0, 1);
  std::ostringstream js; js << "{\"mode\":\"pct\",\"problem\":" << problem_json(p) << ",\"schedules\":" << K << "}";
  r.json = js.str();
  if (can.outcome != "DONE") { r.fail = "canonical schedule ended in " + can.outcome; return r; }
  long window = 0;
  for (long k = 0; k < K; k++) {
    int policy = (k % 3 == 0) ? 1 : 2;
    RunResult rr = run_schedule(p, {}, policy, base + (uint64_t)k);
    if (rr.window_hits) window++;
    if (st) { st->label("schedules"); if (rr.window_hits || rr.switches >= 2) { Hasher h; h.add(mix64(p.n * 131 + p.nthreads)); for (double v : p.x) h.addd(v); for (double v : p.xF) h.addd(v); for (auto& t : rr.trace) h.add(t.first); st->nontriv(h.h); } if (rr.window_hits) st->label("schedule:worker_finished_in_coordinator_window"); }
    std::vector<int> full; for (auto& t : rr.trace) full.push_back(t.first);
    if (rr.outcome != "DONE") { r.fail = std::string(policy == 1 ? "random" : "PCT") + " schedule " + prefix_str(full) + " ended in " + rr.outcome + " (" + std::to_string(p.nthreads) + " worker(s), " + std::to_string(p.nalpha) + " trial steps)"; break; }
    if (rr.outputs != can.outputs) { r.fail = "schedule " + prefix_str(full) + " returns different outputs: " + rr.outputs + " vs canonical " + can.outputs; break; }
  }
  if (st) { st->label("config:" + std::to_string(p.nthreads) + "w_x_" + std::to_string((p.nalpha + p.nthreads - 1) / p.nthreads) + "blocks"); if (p.nthreads > p.nalpha) st->label("config:more_workers_than_steps"); st->sample(r.json); }
  return r;
}

}  // namespace

int main(int argc, char** argv) {
  Options o = parse_options(argc, argv);
  Prop a{"sched_dfs", body_dfs, 1.0}, b{"sched_pct", body_pct, 1.0};
  return run_main(o, "C12", {a, b});
}
