// C01 — evaluation equals the tensor-product B-spline sum it represents.
// Oracle: long-double Cox–de Boor reference (ref.hpp) on the spec the table was built from.
#include "common/vf_rc.hpp"
#include "common/libtable.hpp"
#include "common/producers.hpp"

using namespace vf;

namespace {

struct Tol { double kappa; double eps; };

template <class Float>
std::string eval_points(Chooser& ch, Stats* st, const TableSpec& s, const Table& t, std::ostringstream& js) {
  const double eps = std::numeric_limits<Float>::epsilon();
  const bool is_float = sizeof(Float) == 4;
  size_t nd = s.ndim();
  auto rd = s.refdims();
  float maxc = 0;
  for (float c : s.coeff) maxc = std::max(maxc, fabsf(c));
  uint64_t sumorder = 0;
  for (auto& d : s.dims) sumorder += d.order;
  int npts = 6;
  auto ev = t.template get_evaluator<Float>();
  js << ",\"precision\":" << jstr(is_float ? "float" : "double") << ",\"points\":[";
  std::string fail;
  for (int p = 0; p < npts; p++) {
    std::vector<double> x(nd);
    std::vector<int> kinds(nd);
    bool special = false, in_support = true;
    for (size_t d = 0; d < nd; d++) {
      x[d] = gen_coord_inside(ch, s.dims[d], &kinds[d]);
      if (avoid_known_point(s.dims[d], x[d])) { kinds[d] = 2; if (st) st->excluded_known++; }
      if (kinds[d] != 0) special = true;
      const auto& k = s.dims[d].knots;
      if (!(x[d] >= k[s.dims[d].order] && x[d] <= k[k.size() - s.dims[d].order - 1])) in_support = false;
    }
    if (p) js << ",";
    js << jarr(x);
    std::vector<int> centers(nd, -12345);
    if (!t.searchcenters(x.data(), centers.data())) {  // C04's business; counted here
      if (st) st->label("lookup_failed_inside_range");
      continue;
    }
    VM ref; uint64_t nterms = 0;
    if (!ref_eval(rd, s.coeff, x.data(), nullptr, ref, &nterms)) { fail = "harness: reference rejected a point inside the knot range"; break; }
    // R6: two evaluations over differently scribbled stacks
    scribble_stack(0x00);
    double v0 = t.template ndsplineeval<Float>(x.data(), centers.data(), 0);
    scribble_stack(0xff);
    double v1 = t.template ndsplineeval<Float>(x.data(), centers.data(), 0);
    double kappa = 8.0 + 4.0 * (double)(nd + sumorder) + 2.0 * (double)nterms;
    double tiny = (double)maxc * (double)nterms * (is_float ? 1e-36 : 1e-290);
    double tol = kappa * eps * (double)ref.m + tiny;
    double e0 = fabs(v0 - (double)ref.v), e1 = fabs(v1 - (double)ref.v);
    if (st) {
      for (size_t d = 0; d < nd; d++) st->label(std::string("coord:") + coord_kind_name(kinds[d]));
      if ((double)ref.m > 0) st->maxi(is_float ? "max_err_over_eps_mag_float" : "max_err_over_eps_mag_double", std::max(e0, e1) / (eps * (double)ref.m + tiny));
      bool oddorder = false, minlen = false;
      for (auto& d : s.dims) { if (d.order != 2 && d.order != 3) oddorder = true; if (d.knots.size() == 2 * d.order + 2) minlen = true; }
      if (special || oddorder || minlen) {
        Hasher h; h.add(s.hash()); for (double v : x) h.addd(v); h.add(is_float);
        st->nontriv(h.h);
      }
      if (in_support) st->label("point_fully_supported"); else st->label("point_in_margin");
    }
    if (!(e0 <= tol) || !(e1 <= tol)) {
      std::ostringstream m;
      m << "value differs from the B-spline sum at point #" << p << ": lib=" << jnum(v0) << " / " << jnum(v1)
        << " (stack patterns 00/ff) ref=" << jnum((double)ref.v) << " magnitude=" << jnum((double)ref.m) << " tol=" << jnum(tol);
      fail = m.str(); break;
    }
    if (!same_bits(v0, v1) && !(std::isnan(v0) && std::isnan(v1))) { fail = "evaluation depends on never-written stack memory (results differ between scribble patterns)"; break; }
    // the evaluator object of this precision (its kernels are selected by dimension count and order pattern)
    double ve = ev.ndsplineeval(x.data(), centers.data(), 0);
    if (!(fabs(ve - (double)ref.v) <= tol)) {
      std::ostringstream m;
      m << "value through the evaluator object differs from the B-spline sum at point #" << p << ": evaluator=" << jnum(ve) << " ref=" << jnum((double)ref.v) << " magnitude=" << jnum((double)ref.m) << " tol=" << jnum(tol);
      fail = m.str(); break;
    }
    if (s.coeff_class == "ones" && in_support) {
      if (!(fabs(v0 - 1.0) <= kappa * eps + tiny)) { fail = "all-ones table does not evaluate to 1 in the fully supported region: " + jnum(v0); break; }
      if (st) st->label("allones_supported_checked");
    }
  }
  js << "]";
  return fail;
}

CaseResult body_eval(Chooser& ch, Stats* st) {
  CaseResult r;
  SpecOpts so;
  TableSpec s;
  std::unique_ptr<Table> t;
  std::string producer;
  std::string err;
  if (gen_version() >= 2 && ch.coin(1, 4)) {  // order patterns with their own specialised evaluation kernels
    s = gen_pattern_spec(ch); producer = "P1_read"; t.reset(new Table());
    { QuietStderr q; try { build_p1(*t, s); } catch (std::exception& e) { err = e.what(); } }
    if (st) st->label("orders:dispatch_pattern");
  } else err = produce_table(ch, so, s, t, producer);
  if (!err.empty()) { r.fail = err; r.json = "{\"spec\":" + s.json() + "}"; return r; }
  bool use_float = ch.coin(1, 2);
  std::ostringstream js;
  js << "{\"producer\":" << jstr(producer) << ",\"spec\":" << s.json();
  if (st) {
    st->label("producer:" + producer);
    st->label("ndim:" + std::to_string(s.ndim()));
    for (auto& d : s.dims) st->label("order:" + std::to_string(d.order));
    st->label("coeff:" + s.coeff_class);
    if (s.knot_class.find("repeat") != std::string::npos || s.knot_class.find("clamped") != std::string::npos) st->label("knots:repeated");
    if (s.knot_class.find("minlen") != std::string::npos) st->label("knots:minlen");
    if (s.knot_class.find("irregular") != std::string::npos || s.knot_class.find("geometric") != std::string::npos) st->label("knots:nonuniform");
  }
  std::string f = use_float ? eval_points<float>(ch, st, s, *t, js) : eval_points<double>(ch, st, s, *t, js);
  js << "}";
  r.json = js.str();
  r.fail = f;
  if (st) st->sample(r.json);
  return r;
}

}  // namespace

int main(int argc, char** argv) {
  Options o = parse_options(argc, argv);
  std::string st = ref_selftest();
  if (!st.empty()) { fprintf(stderr, "%s\n", st.c_str()); return 2; }
  return run_main(o, "C01", {{"eval_vs_ref", body_eval, 1.0}});
}
