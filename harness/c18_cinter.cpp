// C18 — the C interface is a faithful, leak-free wrapper.
// Stateful differential test: generated call sequences over 1..3 C handles are mirrored, call by
// call, on C++ twin objects; return values and every observable getter must agree, failures of the
// C++ operation must become non-zero / NULL returns, no exception may escape (the case runs in a
// forked child: std::terminate is a failing case), and LeakSanitizer must find nothing afterwards.
#include <cfloat>
#include <numeric>
#include "common/vf_rc.hpp"
#include "common/libtable.hpp"
#include "common/fitgen.hpp"
#include "common/fitsmut.hpp"
#include "common/bigalloc_guard.hpp"
#include <photospline/cinter/splinetable.h>
#include <sys/stat.h>

using namespace vf;

namespace {

std::string rtrim(std::string s) { while (!s.empty() && s.back() == ' ') s.pop_back(); return s; }
bool eqbits(double a, double b) { return same_bits(a, b) || (std::isnan(a) && std::isnan(b)); }

// full comparison of a C handle with its C++ twin
std::string same_state(const struct splinetable* h, const Table* t) {
  if ((h->data == nullptr) != (t == nullptr)) return "handle is " + std::string(h->data ? "occupied" : "NULL") + " but the twin is " + (t ? "alive" : "gone");
  if (!t) return "";
  if (splinetable_ndim(h) != t->get_ndim()) return "ndim differs";
  for (uint32_t d = 0; d < t->get_ndim(); d++) {
    if (splinetable_order(h, d) != t->get_order(d) || splinetable_nknots(h, d) != t->get_nknots(d) || splinetable_ncoeffs(h, d) != t->get_ncoeffs(d) || splinetable_stride(h, d) != t->get_stride(d)) return "per-dimension getters differ";
    if (!eqbits(splinetable_lower_extent(h, d), t->lower_extent(d)) || !eqbits(splinetable_upper_extent(h, d), t->upper_extent(d)) || !eqbits(splinetable_period(h, d), t->get_period(d))) return "extent/period getters differ";
    const double* k = splinetable_knots(h, d);
    for (uint64_t i = 0; i < t->get_nknots(d); i++) if (!eqbits(k[i], t->get_knot(d, i)) || !eqbits(splinetable_knot(h, d, i), k[i])) return "knots differ";
  }
  if (t->get_ndim()) {
    if (splinetable_total_ncoeffs(h) != t->get_ncoeffs()) return "total coefficient count differs";
    if (memcmp(splinetable_coefficients(h), t->get_coefficients(), t->get_ncoeffs() * 4) != 0) return "coefficients differ";
  }
  const Table* ht = static_cast<const Table*>(h->data);
  if (ht->get_naux_values() != t->get_naux_values()) return "number of auxiliary keys differs";
  for (size_t i = 0; i < t->get_naux_values(); i++) {
    const char* key = t->get_aux_key(i);
    const char* v = splinetable_get_key(h, key);
    if (!v || strcmp(v, t->get_aux_value(key)) != 0) return std::string("auxiliary key '") + key + "' differs";
  }
  return "";
}

CaseResult body(Chooser& ch, Stats* st) {
  CaseResult r;
  QuietStderr q;
  static int serial = 0;
  mkdir("/verif/build/tmp", 0777);
  std::string dir = "/verif/build/tmp/c18-" + std::to_string(getpid()) + "-" + std::to_string(serial++);
  mkdir(dir.c_str(), 0777);
  // two good files and two damaged ones
  std::vector<TableSpec> specs; std::vector<std::vector<unsigned char>> good, bad;
  for (int i = 0; i < 2; i++) {
    SpecOpts so; so.max_ndim = 3; so.max_order = 3; so.max_coeffs = 150; so.max_terms = 64; so.ko.strictly_increasing = true; so.ko.extra_max = 3; so.distinct_axes = true;
    TableSpec s = gen_spec(ch, so); int k = 1; for (auto& d : s.dims) d.period = 0.75 * k++;
    if (i == 0) { s.aux.push_back({"FILEKEY", "17"}); s.aux.push_back({"NAME", "a string"}); }
    specs.push_back(s); good.push_back(spec_to_fits(s));
    MutLog log; bad.push_back(gen_mutated_file(ch, log));
    FILE* f = fopen((dir + "/good" + std::to_string(i) + ".fits").c_str(), "wb"); if (f) { fwrite(good[i].data(), 1, good[i].size(), f); fclose(f); }
    f = fopen((dir + "/bad" + std::to_string(i) + ".fits").c_str(), "wb"); if (f) { fwrite(bad[i].data(), 1, bad[i].size(), f); fclose(f); }
  }
  FitGenOpts fo; fo.max_ndim = 2; fo.max_order = 2; fo.max_coeff = 20; fo.max_rows = 150; fo.allow_sparse = false; fo.smoothing_zero_ok = false;
  FitProblem fp = gen_fit_problem(ch, fo); fp.single_smooth = fp.single_porder = false;

  int nh = 1 + (int)ch.draw(0, 2);
  std::vector<struct splinetable> h(nh); for (auto& x : h) x.data = nullptr;
  std::vector<std::unique_ptr<Table>> tw(nh);
  int nops = 3 + (int)ch.draw(0, 27);
  std::ostringstream js; js << "{\"handles\":" << nh << ",\"ops\":[";
  std::vector<char> failed_then(nh, 0); bool nontriv = false; Hasher hh;
  std::string fail; bool first_op = true;
  for (int op = 0; op < nops && fail.empty(); op++) {
    int a = (int)ch.draw(0, nh - 1); int kind = (int)ch.draw(0, 17); uint64_t salt = ch.draw(0, 0xffffff); int fi = (int)(salt & 1);
    bool alive = h[a].data != nullptr;
    bool populated = alive && tw[a]->get_ndim() != 0;
    std::string name; bool c_fail = false, t_fail = false; bool skipped = false;
    switch (kind) {
      case 0: name = "init"; if (alive) { skipped = true; break; } c_fail = splinetable_init(&h[a]) != 0; tw[a].reset(new Table()); break;
      case 1: name = "free"; splinetable_free(&h[a]); tw[a].reset(); if (salt & 2) splinetable_free(&h[a]); break;
      case 2: case 3: case 4: {  // read from disk: good / missing / damaged (replaces whatever the handle holds)
        name = kind == 2 ? "read_good" : kind == 3 ? "read_missing" : "read_damaged";
        std::string p = kind == 2 ? dir + "/good" + std::to_string(fi) + ".fits" : kind == 3 ? dir + "/nope.fits" : dir + "/bad" + std::to_string(fi) + ".fits";
        c_fail = readsplinefitstable(p.c_str(), &h[a]) != 0;
        tw[a].reset(); try { tw[a].reset(new Table(p)); } catch (std::exception&) { t_fail = true; }
        break; }
      case 5: case 6: {  // read from memory: good / damaged (refused by an occupied table)
        name = kind == 5 ? "read_mem_good" : "read_mem_damaged";
        std::vector<unsigned char> b1 = kind == 5 ? good[fi] : bad[fi], b2 = b1;
        struct splinetable_buffer sb; sb.data = b1.data(); sb.size = b1.size();
        c_fail = readsplinefitstable_mem(&sb, &h[a]) != 0;
        if (!sb.data) { t_fail = true; break; }  // the wrapper refuses a NULL buffer before touching the handle
        if (!tw[a]) tw[a].reset(new Table());
        try { tw[a]->read_fits_mem(b2.data(), b2.size()); } catch (std::exception&) { t_fail = true; }
        break; }
      case 7: {  // write to disk (writable / unwritable path) and to memory
        if (!alive) { skipped = true; break; }
        int w = (int)(salt % 3); name = w == 0 ? "write" : w == 1 ? "write_unwritable" : "write_mem";
        if (w < 2) {
          std::string p = w == 0 ? dir + "/out.fits" : dir + "/missing_dir/out.fits";
          c_fail = writesplinefitstable(p.c_str(), &h[a]) != 0;
          try { tw[a]->write_fits(dir + (w == 0 ? "/out2.fits" : "/missing_dir/out2.fits")); } catch (std::exception&) { t_fail = true; }
          if (!c_fail && !t_fail) { std::vector<unsigned char> f1 = read_whole_file(p), f2 = read_whole_file(dir + "/out2.fits"); if (f1 != f2) fail = "C and C++ writers produced different files"; }
          unlink((dir + "/out.fits").c_str()); unlink((dir + "/out2.fits").c_str());
        } else {
          struct splinetable_buffer sb; sb.data = (salt & 8) ? (void*)&sb : nullptr; sb.size = 0;  // a non-NULL destination must be refused
          bool occupied_dest = sb.data != nullptr;
          c_fail = writesplinefitstable_mem(&sb, &h[a]) != 0;
          std::pair<void*, size_t> m{nullptr, 0};
          if (occupied_dest) t_fail = true; else { try { m = tw[a]->write_fits_mem(); } catch (std::exception&) { t_fail = true; } }
          if (!c_fail && !t_fail && (sb.size != m.second || memcmp(sb.data, m.first, m.second) != 0)) fail = "C and C++ memory writers produced different buffers";
          if (!c_fail && !occupied_dest) free(sb.data);
          free(m.first);
        }
        break; }
      case 8: {  // key access
        if (!alive) { skipped = true; break; }
        static const char* keys[] = {"FILEKEY", "NAME", "NEWKEY", "ABSENT", "ORDER0", "lower"};
        const char* key = keys[(salt >> 4) % 6]; int w = (int)(salt % 4);
        if (w == 0) { name = "get_key"; const char* v1 = splinetable_get_key(&h[a], key); const char* v2 = tw[a]->get_aux_value(key); if ((v1 == nullptr) != (v2 == nullptr) || (v1 && strcmp(v1, v2) != 0)) fail = std::string("splinetable_get_key('") + key + "') differs from get_aux_value"; }
        else if (w == 1) { name = "read_key_int"; int i1 = -12345, i2 = -12345; c_fail = splinetable_read_key(&h[a], SPLINETABLE_INT, key, &i1) != 0; t_fail = !tw[a]->read_key(key, i2); if (!c_fail && !t_fail && i1 != i2) fail = "read_key<int> value differs"; }
        else if (w == 2) { name = "read_key_double"; double d1 = -1, d2 = -1; c_fail = splinetable_read_key(&h[a], SPLINETABLE_DOUBLE, key, &d1) != 0; t_fail = !tw[a]->read_key(key, d2); if (!c_fail && !t_fail && !eqbits(d1, d2)) fail = "read_key<double> value differs"; }
        else { name = "write_key"; int iv = (int)(salt >> 8) % 1000; double dv = (double)iv / 8.0; bool asint = (salt >> 3) & 1;
          c_fail = (asint ? splinetable_write_key(&h[a], SPLINETABLE_INT, key, &iv) : splinetable_write_key(&h[a], SPLINETABLE_DOUBLE, key, &dv)) != 0;
          try { if (asint) tw[a]->write_key(key, iv); else tw[a]->write_key(key, dv); } catch (std::exception&) { t_fail = true; } }
        break; }
      case 9: case 10: {  // lookup and evaluation
        if (!populated) { skipped = true; break; }
        name = "evaluate"; uint32_t nd = tw[a]->get_ndim(); std::vector<double> x(nd); std::vector<int> c1(nd, -1), c2(nd, -1);
        for (uint32_t d = 0; d < nd; d++) { double lo = tw[a]->get_knot(d, 0), hi = tw[a]->get_knot(d, tw[a]->get_nknots(d) - 1); x[d] = lo + (hi - lo) * (double)((mix64(salt + d) % 80)) / 64.0 - (hi - lo) * 0.1; }
        int ok1 = tablesearchcenters(&h[a], x.data(), c1.data()); bool ok2 = tw[a]->searchcenters(x.data(), c2.data());
        if (ok1 != (int)ok2) { fail = "tablesearchcenters differs from searchcenters"; break; }
        if (!ok2) break;
        if (c1 != c2) { fail = "centers differ"; break; }
        int mask = (int)(salt % (1u << nd));
        if (!eqbits(ndsplineeval(&h[a], x.data(), c1.data(), mask), tw[a]->ndsplineeval(x.data(), c2.data(), mask))) { fail = "ndsplineeval differs"; break; }
        std::vector<double> g1(nd + 1, 12345.0), g2(nd + 1); ndsplineeval_gradient(&h[a], x.data(), c1.data(), g1.data());
        bool grad_refused = false;
        try { tw[a]->ndsplineeval_gradient(x.data(), c2.data(), g2.data()); } catch (std::exception&) { grad_refused = true; }
        // the C function returns void: a gradient the C++ operation refuses (too many dimensions) must come back as
        // NaN in every lane, not as an exception crossing the C boundary (which the harness reports as such)
        if (grad_refused) { for (uint32_t i = 0; i <= nd; i++) if (!std::isnan(g1[i])) fail = "the C++ gradient is refused but the C wrapper returned a number in lane " + std::to_string(i); if (st) st->label("gradient_refused_by_dimension"); }
        else for (uint32_t i = 0; i <= nd; i++) if (!eqbits(g1[i], g2[i])) fail = "gradient differs";
        std::vector<unsigned> dv(nd); for (uint32_t d = 0; d < nd; d++) dv[d] = (unsigned)(mix64(salt * 7 + d) % 3);
        if (!eqbits(ndsplineeval_deriv(&h[a], x.data(), c1.data(), dv.data()), tw[a]->ndsplineeval_deriv(x.data(), c2.data(), dv.data()))) fail = "ndsplineeval_deriv differs";
        break; }
      case 11: {  // convolve
        if (!populated) { skipped = true; break; }
        uint32_t dim = (uint32_t)(salt % tw[a]->get_ndim()); if (tw[a]->get_order(dim) > 5) { skipped = true; break; }
        name = "convolve"; double sp = tw[a]->get_knot(dim, 1) - tw[a]->get_knot(dim, 0); if (!(sp > 0)) sp = 1; double y[3] = {-0.5 * sp, 0.25 * sp, 0.5 * sp}; size_t n = 2 + (salt >> 8) % 2;
        c_fail = splinetable_convolve(&h[a], (int)dim, y, n) != 0;
        try { tw[a]->convolve(dim, y, n); } catch (std::exception&) { t_fail = true; }
        break; }
      case 12: case 13: {  // fit: valid and invalid arguments (refused by an occupied table)
        if (!alive) { skipped = true; break; }
        name = kind == 12 ? "glamfit_valid" : "glamfit_invalid";
        FitProblem p = fp;
        if (kind == 13) { int w = (int)(salt % 3); if (w == 0) p.knots[0].resize(p.order[0] + 1); else if (w == 1) std::reverse(p.knots[0].begin(), p.knots[0].end()); else p.porder[0] = p.order[0] + 2; }
        NdSparseHolder nd1(p), nd2(p);
        std::vector<const double*> cp, kp; std::vector<uint64_t> nk; for (uint32_t d = 0; d < p.ndim; d++) { cp.push_back(p.coords[d].data()); kp.push_back(p.knots[d].data()); nk.push_back(p.knots[d].size()); }
        c_fail = splinetable_glamfit(&h[a], &nd1.nd, p.w.data(), cp.data(), p.order.data(), kp.data(), nk.data(), p.smooth.data(), p.porder.data(), PHOTOSPLINE_GLAM_NO_MONODIM, false) != 0;
        try { tw[a]->fit(nd2.nd, p.w, p.coords, p.order, p.knots, p.smooth, p.porder, Table::no_monodim, false); } catch (std::exception&) { t_fail = true; }
        break; }
      case 14: {  // grid evaluation
        if (!populated) { skipped = true; break; }
        name = "grideval"; uint32_t nd = tw[a]->get_ndim(); std::vector<std::vector<double>> grid(nd);
        for (uint32_t d = 0; d < nd; d++) { int n = 1 + (int)(mix64(salt + d) % 3); for (int i = 0; i < n; i++) grid[d].push_back(tw[a]->get_knot(d, 0) + (tw[a]->get_knot(d, tw[a]->get_nknots(d) - 1) - tw[a]->get_knot(d, 0)) * (0.2 + 0.3 * i)); }
        std::vector<const double*> cp; std::vector<uint32_t> nc; for (auto& g : grid) { cp.push_back(g.data()); nc.push_back((uint32_t)g.size()); }
        struct ndsparse* res = nullptr; std::unique_ptr<photospline::ndsparse> r2;
        c_fail = splinetable_grideval(&h[a], cp.data(), nc.data(), &res) != 0;
        try { r2 = tw[a]->grideval(grid); } catch (std::exception&) { t_fail = true; }
        if (c_fail != (res == nullptr)) fail = "splinetable_grideval: return value and result pointer disagree";
        if (!c_fail && !t_fail) { if (res->rows != r2->rows || res->ndim != r2->ndim) fail = "grid results differ in shape"; else for (size_t e = 0; e < res->rows && fail.empty(); e++) { if (!eqbits(res->x[e], r2->x[e])) fail = "grid values differ"; for (size_t d = 0; d < res->ndim; d++) if (res->i[d][e] != r2->i[d][e]) fail = "grid indices differ"; } }
        if (res) ndsparse_destroy(res);
        nontriv = true;
        break; }
      case 15: case 16: {  // permutation: valid / invalid
        if (!populated) { skipped = true; break; }
        name = kind == 15 ? "permute" : "permute_invalid"; size_t nd = tw[a]->get_ndim(); std::vector<size_t> p(nd); std::iota(p.begin(), p.end(), 0);
        for (size_t i = nd - 1; i > 0; i--) std::swap(p[i], p[(size_t)(mix64(salt + i) % (i + 1))]);
        if (kind == 16) { if (nd >= 2 && (salt & 1)) p[0] = p[1]; else p[0] = nd + 2; }
        std::vector<size_t> pc = p;
        c_fail = splinetable_permute(&h[a], pc.data()) != 0;
        try { tw[a]->permuteDimensions(p); } catch (std::exception&) { t_fail = true; }
        break; }
      default: skipped = true;
    }
    if (skipped) continue;
    js << (first_op ? "" : ",") << "\"" << name << "(" << a << ")\""; first_op = false;
    hh.adds(name); hh.add(a); hh.add(salt);
    if (st) st->label("op:" + name);
    if (fail.empty() && c_fail != t_fail) fail = name + ": the C wrapper reported " + (c_fail ? "failure" : "success") + " but the C++ operation " + (t_fail ? "failed" : "succeeded");
    if (fail.empty()) { for (int i = 0; i < nh && fail.empty(); i++) { std::string e = same_state(&h[i], tw[i].get()); if (!e.empty()) fail = "after " + name + "(" + std::to_string(a) + "): handle " + std::to_string(i) + ": " + e; } }
    if (t_fail) failed_then[a] = 1; else if (failed_then[a] && name != "free") { nontriv = true; failed_then[a] = 2; }
    if (!fail.empty()) fail = "op #" + std::to_string(op) + " " + fail;
  }
  js << "]}";
  r.json = js.str();
  for (auto& x : h) splinetable_free(&x);
  tw.clear();
  for (int i = 0; i < 2; i++) { unlink((dir + "/good" + std::to_string(i) + ".fits").c_str()); unlink((dir + "/bad" + std::to_string(i) + ".fits").c_str()); }
  rmdir(dir.c_str());
  if (st) { if (nontriv) { st->nontriv(hh.h); st->label("history:failure_then_use_or_grideval"); } st->label("ops", (uint64_t)nops); st->sample(r.json); }
  r.fail = fail;
  return r;
}

}  // namespace

int main(int argc, char** argv) {
  Options o = parse_options(argc, argv);
  Prop a{"cinter_twin", body, 1.0, 1, 4096, 180}; a.leakcheck = true;
  return run_main(o, "C18", {a});
}
