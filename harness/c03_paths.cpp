// C03 — evaluation result is independent of the evaluation path selected.
// Differential, bit-exact: member functions vs evaluator object vs call operator vs C interface.
// Built twice: default and -DPHOTOSPLINE_NO_EVAL_TEMPLATES.
#include "common/vf_rc.hpp"
#include "common/libtable.hpp"
#include "common/producers.hpp"
#include <photospline/cinter/splinetable.h>

using namespace vf;

namespace {

bool eqbits(double a, double b) { return same_bits(a, b) || (std::isnan(a) && std::isnan(b)); }

// which routine get_evaluator() is documented to select for (ndim, orders)
std::string selected_routine(const TableSpec& s) {
#ifdef PHOTOSPLINE_NO_EVAL_TEMPLATES
  (void)s; return "generic(no_templates)";
#else
  size_t nd = s.ndim();
  auto is = [&](std::initializer_list<unsigned> l) { if (l.size() != nd) return false; size_t i = 0; for (auto o : l) if (s.dims[i++].order != o) return false; return true; };
  if (is({2, 2, 2, 3, 2, 2})) return "KnownOrder<2,2,2,3,2,2>";
  if (is({2, 2, 2, 5, 2, 2})) return "KnownOrder<2,2,2,5,2,2>";
  bool same = true;
  for (auto& d : s.dims) if (d.order != s.dims[0].order) same = false;
  if (nd > 8) return "generic(ndim>8)";
  if (same && s.dims[0].order == 2) return "FixedOrder<D,2>:D=" + std::to_string(nd);
  if (same && s.dims[0].order == 3) return "FixedOrder<D,3>:D=" + std::to_string(nd);
  return "coreD<D>:D=" + std::to_string(nd);
#endif
}

template <class Float>
std::string compare_paths(const Table& t, const TableSpec& s, const double* x, const int* c, int mask, const unsigned* dv, Stats* st) {
  size_t nd = s.ndim();
  auto ev = t.template get_evaluator<Float>();
  std::ostringstream m;
  const char* prec = sizeof(Float) == 4 ? "float" : "double";
  // centers
  std::vector<int> c2(nd, -1), c3(nd, -1);
  bool ok2 = ev.searchcenters(x, c2.data());
  struct splinetable ct; ct.data = const_cast<Table*>(&t);
  int ok3 = tablesearchcenters(&ct, x, c3.data());
  if (!ok2 || ok3 != (int)true) return "lookup flag differs between member, evaluator and C interface";
  for (size_t d = 0; d < nd; d++) if (c2[d] != c[d] || c3[d] != c[d]) return "center indices differ between member, evaluator and C interface";
  // values / bitmask derivatives
  double a = t.template ndsplineeval<Float>(x, c, mask);
  double b = ev.ndsplineeval(x, c, mask);
  double cc = ev(x, mask);
  if (!eqbits(a, b) || !eqbits(a, cc)) { m << prec << " mask=" << mask << ": member " << jnum(a) << " evaluator " << jnum(b) << " evaluator() " << jnum(cc); return m.str(); }
  if (sizeof(Float) == 4) {
    double d = ::ndsplineeval(&ct, x, c, mask);
    if (!eqbits(a, d)) { m << "float mask=" << mask << ": member " << jnum(a) << " C interface " << jnum(d); return m.str(); }
    if (mask == 0) {
      double e = t(x);
      if (!eqbits(a, e)) { m << "float: member " << jnum(a) << " call operator " << jnum(e); return m.str(); }
    }
    // arbitrary-order derivative: member (float) = evaluator<float> = C
    double da = t.ndsplineeval_deriv(x, c, dv), db = ev.ndsplineeval_deriv(x, c, dv), dc = ::ndsplineeval_deriv(&ct, x, c, dv);
    if (!eqbits(da, db) || !eqbits(da, dc)) { m << "ndsplineeval_deriv: member " << jnum(da) << " evaluator " << jnum(db) << " C " << jnum(dc); return m.str(); }
    if (st) st->label("deriv_compared");
  }
  // gradient
  if (nd <= 7) {
    std::vector<double> g1(nd + 1, -7), g2(nd + 1, -8), g3(nd + 1, -9);
    t.template ndsplineeval_gradient<Float>(x, c, g1.data());
    ev.ndsplineeval_gradient(x, c, g2.data());
    for (size_t i = 0; i <= nd; i++) if (!eqbits(g1[i], g2[i])) { m << prec << " gradient lane " << i << ": member " << jnum(g1[i]) << " evaluator " << jnum(g2[i]); return m.str(); }
    if (sizeof(Float) == 4) {
      ::ndsplineeval_gradient(&ct, x, c, g3.data());
      for (size_t i = 0; i <= nd; i++) if (!eqbits(g1[i], g3[i])) { m << "float gradient lane " << i << ": member " << jnum(g1[i]) << " C " << jnum(g3[i]); return m.str(); }
    }
    double plain = t.template ndsplineeval<Float>(x, c, 0);
    if (!eqbits(g1[0], plain)) { m << prec << " gradient value lane " << jnum(g1[0]) << " differs from the plain value " << jnum(plain); return m.str(); }
    if (st) st->label("gradient_compared");
  }
  return "";
}

CaseResult body_paths(Chooser& ch, Stats* st) {
  CaseResult r;
  TableSpec s = gen_pattern_spec(ch);
  Table t;
  std::ostringstream js;
  js << "{\"spec\":" << s.json(6);
  { QuietStderr q; try { build_p1(t, s); } catch (std::exception& e) { r.fail = std::string("library rejected a well-formed file: ") + e.what(); r.json = js.str() + "}"; return r; } }
  size_t nd = s.ndim();
  std::string routine = selected_routine(s);
  js << ",\"routine\":" << jstr(routine) << ",\"points\":[";
  if (st) { st->label("routine:" + routine); st->label("ndim:" + std::to_string(nd)); }
  for (int p = 0; p < 5 && r.fail.empty(); p++) {
    std::vector<double> x(nd); bool special = false;
    for (size_t d = 0; d < nd; d++) { int k; x[d] = gen_coord_inside(ch, s.dims[d], &k); if (k) special = true; if (avoid_known_point(s.dims[d], x[d]) && st) st->excluded_known++; }
    int mask = ch.coin(1, 3) ? 0 : (int)ch.draw(0, (1u << nd) - 1);
    std::vector<unsigned> dv(nd);
    for (size_t d = 0; d < nd; d++) dv[d] = (unsigned)ch.draw(0, 3);
    if (p) js << ",";
    js << "{\"x\":" << jarr(x) << ",\"mask\":" << mask << ",\"deriv\":" << jarr(dv) << "}";
    std::vector<int> c(nd);
    if (!t.searchcenters(x.data(), c.data())) { if (st) st->label("lookup_failed_inside_range"); continue; }
    std::string e = compare_paths<float>(t, s, x.data(), c.data(), mask, dv.data(), st);
    if (e.empty()) e = compare_paths<double>(t, s, x.data(), c.data(), mask, dv.data(), st);
    if (!e.empty()) r.fail = "point #" + std::to_string(p) + " [" + routine + "]: " + e;
    if (st && (routine.rfind("generic", 0) != 0 || nd >= 5)) { Hasher h; h.add(s.hash()); for (double v : x) h.addd(v); h.add(mask); for (auto v : dv) h.add(v); st->nontriv(h.h); }
    if (st && special) st->label("point:edge");
  }
  js << "]}";
  r.json = js.str();
  if (st) st->sample(r.json);
  return r;
}

}  // namespace

int main(int argc, char** argv) {
  Options o = parse_options(argc, argv);
  return run_main(o, "C03", {{"paths", body_paths, 1.0}});
}
