// C14 — convolution produces the true convolution with the unit-area kernel spline.
// Oracle: metadata (order, sorted pairwise-sum knots, untouched dimensions, well-formedness) and,
// at points across the new knot range, the integral  ∫ f(x_d - t) K(t) dt  with f the reference
// evaluation of the ORIGINAL spec (zero outside its knot range) and K the unit-area B-spline of
// order n-2 on the kernel knots, integrated exactly by Gauss-Legendre between all breakpoints.
#include <cfloat>
#include "common/vf_rc.hpp"
#include "common/libtable.hpp"
#include <photospline/cinter/splinetable.h>

using namespace vf;

namespace {

// 8-point Gauss-Legendre on [-1,1] (exact to degree 15)
const LD GLx[8] = {-0.9602898564975362316835609L, -0.7966664774136267395915539L, -0.5255324099163289858177390L, -0.1834346424956498049394761L,
                   0.1834346424956498049394761L, 0.5255324099163289858177390L, 0.7966664774136267395915539L, 0.9602898564975362316835609L};
const LD GLw[8] = {0.1012285362903762591525314L, 0.2223810344533744705443560L, 0.3137066458778872873379622L, 0.3626837833783619829651504L,
                   0.3626837833783619829651504L, 0.3137066458778872873379622L, 0.2223810344533744705443560L, 0.1012285362903762591525314L};

// unit-area kernel: (n-1)/(y_{n-1}-y_0) * N_{0,n-2}(t) on knots y (half-open spans; measure-zero differences are irrelevant under the integral)
LD kernel(const std::vector<double>& y, LD t) {
  int n = (int)y.size();
  if (!(t >= y[0] && t < y[n - 1])) return 0;
  int j = 0; for (int i = 0; i + 1 < n; i++) if (t >= y[i] && t < y[i + 1]) j = i;
  // Cox-de Boor of order n-2 for the single function 0 on span j
  std::function<LD(int, int)> N = [&](int i, int m) -> LD {
    if (m == 0) return i == j ? 1.0L : 0.0L;
    LD d1 = (LD)y[i + m] - y[i], d2 = (LD)y[i + m + 1] - y[i + 1];
    return (d1 > 0 ? (t - y[i]) / d1 * N(i, m - 1) : 0) + (d2 > 0 ? ((LD)y[i + m + 1] - t) / d2 * N(i + 1, m - 1) : 0);
  };
  return (LD)(n - 1) / ((LD)y[n - 1] - y[0]) * N(0, n - 2);
}

// reference value of the convolved surface at x (double coordinates), plus magnitude scale
bool conv_reference(const TableSpec& s, uint32_t dim, const std::vector<double>& y, const std::vector<double>& x, LD& out) {
  auto rd = s.refdims();
  const auto& k = s.dims[dim].knots;
  std::vector<LD> bp;
  for (double v : y) bp.push_back(v);
  for (double kv : k) { LD t = (LD)x[dim] - kv; if (t > y.front() && t < y.back()) bp.push_back(t); }
  std::sort(bp.begin(), bp.end());
  LD total = 0;
  std::vector<double> xx = x;
  for (size_t i = 0; i + 1 < bp.size(); i++) {
    LD a = bp[i], b = bp[i + 1];
    if (!(b > a)) continue;
    for (int g = 0; g < 8; g++) {
      LD t = 0.5L * (a + b) + 0.5L * (b - a) * GLx[g];
      LD u = (LD)x[dim] - t;
      xx[dim] = (double)u;
      VM f;
      LD fv = 0;
      if (ref_eval(rd, s.coeff, xx.data(), nullptr, f)) fv = f.v;
      total += 0.5L * (b - a) * GLw[g] * fv * kernel(y, t);
    }
  }
  out = total;
  return true;
}

std::vector<double> gen_kernel(Chooser& ch, const DimSpec& d, bool on_grid, std::string& cls) {
  int n = 2 + (int)ch.draw(0, 4);
  std::vector<double> y(n);
  double sp = d.knots[1] - d.knots[0]; if (!(sp > 0)) sp = 1;
  if (on_grid) {  // kernel knots are multiples of the table's (uniform) knot spacing => repeated new knots
    int start = ch.range(-3, 1);
    y[0] = start * sp; for (int i = 1; i < n; i++) y[i] = y[i - 1] + sp * (double)(1 + ch.draw(0, 1));
    cls = "on_grid";
  } else {
    static const double w[] = {0.37, 0.61, 1.13, 0.19, 2.3, 0.83};
    int kind = (int)ch.draw(0, 2);  // symmetric, one-sided, shifted
    y[0] = 0; for (int i = 1; i < n; i++) y[i] = y[i - 1] + sp * w[ch.draw(0, 5)];
    double width = y[n - 1];
    double shift = kind == 0 ? -0.5 * width : (kind == 1 ? 0.0 : -0.271 * width);
    for (auto& v : y) v += shift;
    cls = kind == 0 ? "symmetricish" : kind == 1 ? "one_sided" : "shifted";
  }
  return y;
}

CaseResult body(Chooser& ch, Stats* st) {
  CaseResult r;
  QuietStderr q;
  SpecOpts so; so.max_ndim = 4; so.max_order = 5; so.max_coeffs = 1500; so.max_terms = 400; so.ko.strictly_increasing = true; so.ko.extra_max = 6;
  bool on_grid = ch.coin(1, 4);
  TableSpec s = gen_spec(ch, so);
  uint32_t dim = (uint32_t)ch.draw(0, s.ndim() - 1);
  {  // the convolved dimension gets irregular knots with spacing ratio <= 12 and a small offset: the property's tolerance is
     // single-precision rounding, which blossoming can only deliver when the knot spacing is not tiny compared with the knot values
    auto& k = s.dims[dim].knots; static const double inc[] = {0.25, 0.5, 1, 1.5, 2, 3};
    k[0] = (double)ch.range(-3, 0);
    for (size_t i = 1; i < k.size(); i++) k[i] = k[i - 1] + inc[ch.draw(0, 5)];
    s.dims[dim].ext_lo = k[s.dims[dim].order]; s.dims[dim].ext_hi = k[k.size() - s.dims[dim].order - 1];
  }
  if (on_grid) {  // make the convolved dimension uniform so that the kernel can sit on its grid
    auto& k = s.dims[dim].knots; for (size_t i = 0; i < k.size(); i++) k[i] = (double)i * 0.5 - 1.0;
    s.dims[dim].ext_lo = k[s.dims[dim].order]; s.dims[dim].ext_hi = k[k.size() - s.dims[dim].order - 1];
  }
  // spacing ratio <= 16 in the convolved dimension (property's domain is "irregular knots"; extreme ratios only cost digits)
  std::string kcls;
  std::vector<double> y = gen_kernel(ch, s.dims[dim], on_grid, kcls);
  uint32_t order0 = s.dims[dim].order; size_t n = y.size();
  std::ostringstream js;
  js << "{\"spec\":" << s.json(6) << ",\"dim\":" << dim << ",\"kernel_knots\":" << jarr(y) << ",\"kernel_class\":" << jstr(kcls) << "}";
  r.json = js.str();
  if (st) {
    st->label("ndim:" + std::to_string(s.ndim())); st->label("order:" + std::to_string(order0)); st->label("kernel_knots:" + std::to_string(n)); st->label("kernel:" + kcls);
    if ((order0 >= 1 && n >= 3) || (s.ndim() >= 2 && dim != s.ndim() - 1) || on_grid) { Hasher h; h.add(s.hash()); h.add(dim); for (double v : y) h.addd(v); st->nontriv(h.h); }
    if (s.ndim() >= 2 && dim != s.ndim() - 1) st->label("dim:not_last");
    st->sample(r.json);
  }
  Table t;
  try { build_p1(t, s); } catch (std::exception& e) { r.fail = std::string("harness: ") + e.what(); return r; }
  bool via_c = ch.coin(1, 6);
  try {
    if (via_c) { struct splinetable ct; ct.data = &t; if (splinetable_convolve(&ct, (int)dim, y.data(), n) != 0) { r.fail = "C wrapper failed on a valid convolution"; return r; } }
    else t.convolve(dim, y.data(), n);
  } catch (std::exception& e) { r.fail = std::string("convolve threw on valid arguments: ") + e.what(); return r; }
  // ---- metadata
  if (t.get_ndim() != s.ndim()) { r.fail = "dimension count changed"; return r; }
  std::vector<double> rho;
  for (double a : s.dims[dim].knots) for (double b : y) rho.push_back(a + b);
  std::sort(rho.begin(), rho.end());
  for (uint32_t d = 0; d < s.ndim(); d++) {
    uint32_t eo = d == dim ? order0 + (uint32_t)n - 1 : s.dims[d].order;
    const std::vector<double>& ek = d == dim ? rho : s.dims[d].knots;
    if (t.get_order(d) != eo) { r.fail = "order in dimension " + std::to_string(d) + " is " + std::to_string(t.get_order(d)) + ", expected " + std::to_string(eo); return r; }
    if (t.get_nknots(d) != ek.size()) { r.fail = "knot count in dimension " + std::to_string(d) + " is " + std::to_string(t.get_nknots(d)) + ", expected " + std::to_string(ek.size()); return r; }
    for (size_t i = 0; i < ek.size(); i++) if (!same_bits(t.get_knot(d, i), ek[i])) { r.fail = "knot " + std::to_string(i) + " of dimension " + std::to_string(d) + " is " + jnum(t.get_knot(d, i)) + ", expected " + jnum(ek[i]); return r; }
    if (t.get_ncoeffs(d) != ek.size() - eo - 1) { r.fail = "coefficient count is not nknots-order-1 in dimension " + std::to_string(d); return r; }
  }
  { uint64_t acc = 1; for (uint32_t d = s.ndim(); d-- > 0;) { if (t.get_stride(d) != acc) { r.fail = "strides are not the C-order strides after convolution"; return r; } acc *= t.get_ncoeffs(d); } }
  // ---- values
  float maxc = 0; for (float c : s.coeff) maxc = std::max(maxc, fabsf(c));
  DimSpec nd; nd.order = order0 + (uint32_t)n - 1; nd.knots = rho;
  double kappa = 32.0;   // measured worst case on the unchanged tree over all (order, n): 0.5 (coefficients are stored as float)
  for (int p = 0; p < 10; p++) {
    std::vector<double> x(s.ndim());
    for (uint32_t d = 0; d < s.ndim(); d++) {
      if (d == dim) { x[d] = gen_coord_inside(ch, nd); if (zero_width_support(nd) && x[d] == nd.knots[nd.order]) x[d] = nextafter(x[d], INFINITY); }
      else { x[d] = gen_coord_inside(ch, s.dims[d]); avoid_known_point(s.dims[d], x[d]); }
    }
    std::vector<int> c(s.ndim());
    if (!t.searchcenters(x.data(), c.data())) { r.fail = "lookup failed inside the new knot range at " + jarr(x); return r; }
    double v = t.ndsplineeval<double>(x.data(), c.data(), 0);
    LD ref;
    conv_reference(s, dim, y, x, ref);
    double tol = kappa * FLT_EPSILON * (double)maxc + 1e-30;
    if (st && maxc > 0) st->maxi("max_err_over_epsf_maxc:order" + std::to_string(order0) + "_n" + std::to_string(n), fabs(v - (double)ref) / (FLT_EPSILON * maxc));
    if (!(fabs(v - (double)ref) <= tol)) {
      r.fail = "convolved table evaluates to " + jnum(v) + " at " + jarr(x) + ", the convolution integral is " + jnum((double)ref) + " (order " + std::to_string(order0) + ", " + std::to_string(n) + " kernel knots, tolerance " + jnum(tol) + ")";
      return r;
    }
  }
  return r;
}

}  // namespace

int main(int argc, char** argv) {
  Options o = parse_options(argc, argv);
  Prop a{"convolution", body, 1.0, 1, 2048, 120};
  return run_main(o, "C14", {a});
}
