// C02 — derivative and gradient evaluations are the true partial derivatives.
// Oracle: derivative recursion of the long-double reference (ref.hpp) in the tensor sum.
#include <cfloat>
#include "common/vf_rc.hpp"
#include "common/libtable.hpp"
#include "common/producers.hpp"

using namespace vf;

namespace {

bool is_knot_ge_ku(const DimSpec& d, double x) {
  double ku = d.knots[d.knots.size() - d.order - 1];
  if (x < ku) return false;
  for (double k : d.knots) if (k == x) return true;
  return false;
}

struct Ctx {
  const TableSpec& s; const Table& t; std::vector<RefDim> rd; float maxc; uint64_t sumorder;
};

double tol_for(const Ctx& c, double eps, const VM& ref, uint64_t nterms, bool is_float) {
  double kappa = 16.0 + 8.0 * (double)(c.s.ndim() + c.sumorder) + 2.0 * (double)nterms;
  double tiny = (double)c.maxc * (double)std::max<uint64_t>(nterms, 1) * (is_float ? 1e-36 : 1e-290);
  return kappa * eps * (double)ref.m + tiny;
}

// working-precision range guard (implicit precondition: the requested quantity and the partial
// products it is built from are representable in the working precision)
bool in_range(const RefRange& rr, const VM& ref, float maxc, bool is_float) {
  LD hi = is_float ? 1e30L : 1e280L, lo = is_float ? 1e-28L : 1e-280L;
  LD c = std::max<LD>(maxc, 1);
  if (rr.prefix_max * c > hi || ref.m > hi) return false;
  if (rr.prefix_min < lo) return false;
  if (rr.elem_min < lo || rr.elem_max > hi) return false;  // every basis value is stored in the working precision before it is multiplied
  return true;
}

template <class Float>
std::string check_point(const Ctx& c, Chooser& ch, Stats* st, const std::vector<double>& x, const std::vector<int>& cen, bool special, std::ostringstream& js) {
  const double eps = std::numeric_limits<Float>::epsilon();
  const bool is_float = sizeof(Float) == 4;
  size_t nd = c.s.ndim();
  std::ostringstream m;
  // 1. bitmask derivatives: all subsets for ndim <= 3, else 4 random masks (always including a mixed one)
  std::vector<int> masks;
  if (nd <= 3) for (int k = 0; k < (1 << nd); k++) masks.push_back(k);
  else { for (int k = 0; k < 4; k++) masks.push_back((int)ch.draw(1, (1u << nd) - 1)); masks.push_back((1 << nd) - 1); }
  js << ",\"masks\":" << jarr(masks);
  for (int mask : masks) {
    std::vector<int> dv(nd);
    int bits = 0; bool order0 = false;
    for (size_t d = 0; d < nd; d++) { dv[d] = (mask >> d) & 1; bits += dv[d]; if (dv[d] && c.s.dims[d].order == 0) order0 = true; }
    VM ref; uint64_t nt = 0; RefRange rr;
    if (!ref_eval(c.rd, c.s.coeff, x.data(), dv.data(), ref, &nt, &rr)) return "harness: reference rejected the point";
    if (!in_range(rr, ref, c.maxc, is_float)) { if (st) st->label("skipped:outside_working_precision_range"); continue; }
    scribble_stack(0x00);
    double v0 = c.t.template ndsplineeval<Float>(x.data(), cen.data(), mask);
    scribble_stack(0xff);
    double v1 = (mask & 1) ? c.t.template get_evaluator<Float>().ndsplineeval(x.data(), cen.data(), mask) : c.t.template ndsplineeval<Float>(x.data(), cen.data(), mask);
    double tol = tol_for(c, eps, ref, nt, is_float);
    if (st) {
      if ((double)ref.m > 0) st->maxi(is_float ? "max_err_over_eps_mag_float" : "max_err_over_eps_mag_double", std::max(fabs(v0 - (double)ref.v), fabs(v1 - (double)ref.v)) / (eps * (double)ref.m + 1e-300));
      if (bits >= 2) st->label("mask:mixed"); else if (bits == 1) st->label("mask:single");
      if (order0) st->label("deriv_along_order0");
      if (bits >= 2 || order0 || (special && bits >= 1)) { Hasher h; h.add(c.s.hash()); for (double v : x) h.addd(v); h.add(mask); h.add(is_float); st->nontriv(h.h); }
    }
    if (order0 && !(v0 == 0.0 && v1 == 0.0)) { m << "derivative along an order-0 dimension is not exactly 0: mask=" << mask << " lib=" << jnum(v0) << " / " << jnum(v1); return m.str(); }
    if (!(fabs(v0 - (double)ref.v) <= tol) || !(fabs(v1 - (double)ref.v) <= tol)) {
      m << "bitmask derivative mask=" << mask << " (" << (is_float ? "float" : "double") << "): lib=" << jnum(v0) << " / " << jnum(v1) << " ref=" << jnum((double)ref.v)
        << " magnitude=" << jnum((double)ref.m) << " tol=" << jnum(tol);
      return m.str();
    }
  }
  // 2. value + gradient
  if (nd <= 7) {
    std::vector<double> g(nd + 1, -12345.0);
    scribble_stack(0xff);
    bool via_evaluator = ch.coin(1, 2);   // the optimised evaluator object must deliver the same true partials
    if (via_evaluator) { auto ev = c.t.template get_evaluator<Float>(); ev.ndsplineeval_gradient(x.data(), cen.data(), g.data()); if (st) st->label("gradient_via_evaluator"); }
    else c.t.template ndsplineeval_gradient<Float>(x.data(), cen.data(), g.data());
    double plain = c.t.template ndsplineeval<Float>(x.data(), cen.data(), 0);
    if (!same_bits(g[0], plain) && !(std::isnan(g[0]) && std::isnan(plain))) { m << "gradient lane 0 " << jnum(g[0]) << " is not the plain value " << jnum(plain); return m.str(); }
    for (size_t l = 0; l <= nd; l++) {
      std::vector<int> dv(nd, 0); if (l) dv[l - 1] = 1;
      VM ref; uint64_t nt = 0; RefRange rr;
      ref_eval(c.rd, c.s.coeff, x.data(), dv.data(), ref, &nt, &rr);
      if (!in_range(rr, ref, c.maxc, is_float)) { if (st) st->label("skipped:outside_working_precision_range"); continue; }
      double tol = tol_for(c, eps, ref, nt, is_float);
      if (l && c.s.dims[l - 1].order == 0 && g[l] != 0.0) { m << "gradient component along order-0 dimension " << l - 1 << " is " << jnum(g[l]) << ", not 0"; return m.str(); }
      if (!(fabs(g[l] - (double)ref.v) <= tol)) { m << "gradient lane " << l << " (" << (is_float ? "float" : "double") << "): lib=" << jnum(g[l]) << " ref=" << jnum((double)ref.v) << " magnitude=" << jnum((double)ref.m) << " tol=" << jnum(tol); return m.str(); }
    }
    if (st) st->label("gradient_checked");
  } else {
    bool threw = false;
    std::vector<double> g(nd + 1);
    try { c.t.template ndsplineeval_gradient<Float>(x.data(), cen.data(), g.data()); } catch (std::runtime_error&) { threw = true; }
    if (!threw) return "gradient of a table with more than 7 dimensions was not refused";
    if (st) st->label("gradient_refused_ndim_ge8");
  }
  return "";
}

// arbitrary-order derivative (single precision only in the library)
std::string check_deriv(const Ctx& c, Chooser& ch, Stats* st, const std::vector<double>& x, const std::vector<int>& cen, bool strictly_increasing, bool special, std::ostringstream& js) {
  size_t nd = c.s.ndim();
  std::ostringstream m;
  for (int rep = 0; rep < 2; rep++) {
    std::vector<int> dv(nd); std::vector<unsigned> du(nd);
    bool high = false, above_order = false;
    for (size_t d = 0; d < nd; d++) {
      int maxd = (int)c.s.dims[d].order + 1;
      int v = (int)ch.draw(0, maxd);
      if (v >= 2 && !strictly_increasing) v = (int)ch.draw(0, 1);           // property: knots strictly increasing for orders >= 2
      // (the former exclusion of derivative orders >= 2 at knots >= the upper support end, known finding
      //  C02-high-deriv-at-upper-knots, was removed when the defect was repaired in /repo)
      if (v >= 2 && is_knot_ge_ku(c.s.dims[d], x[d]) && st) st->label("deriv>=2_at_upper_knot");
      dv[d] = v; du[d] = (unsigned)v;
      if (v >= 2) high = true;
      if (v > (int)c.s.dims[d].order) above_order = true;
    }
    js << ",\"deriv" << rep << "\":" << jarr(dv);
    VM ref; uint64_t nt = 0; RefRange rr;
    if (!ref_eval(c.rd, c.s.coeff, x.data(), dv.data(), ref, &nt, &rr)) return "harness: reference rejected the point";
    if (!in_range(rr, ref, c.maxc, true)) { if (st) st->label("skipped:outside_working_precision_range"); continue; }
    scribble_stack(0x00);
    double v0 = c.t.ndsplineeval_deriv(x.data(), cen.data(), du.data());
    scribble_stack(0xff);
    double v1 = c.t.ndsplineeval_deriv(x.data(), cen.data(), du.data());
    double tol = tol_for(c, FLT_EPSILON, ref, nt, true);
    if (st) {
      if (high) st->label("deriv:order>=2"); if (above_order) st->label("deriv:above_spline_order");
      if ((double)ref.m > 0) st->maxi("max_err_over_eps_mag_deriv", std::max(fabs(v0 - (double)ref.v), fabs(v1 - (double)ref.v)) / (FLT_EPSILON * (double)ref.m + 1e-300));
      if (high || above_order || special) { Hasher h; h.add(c.s.hash()); for (double v : x) h.addd(v); for (int v : dv) h.add(v + 100); st->nontriv(h.h); }
    }
    if (above_order && !(v0 == 0.0 && v1 == 0.0)) { m << "derivative of order above the spline order is not exactly 0: deriv=" << jarr(dv) << " lib=" << jnum(v0) << " / " << jnum(v1); return m.str(); }
    if (!(fabs(v0 - (double)ref.v) <= tol) || !(fabs(v1 - (double)ref.v) <= tol)) {
      m << "ndsplineeval_deriv deriv=" << jarr(dv) << ": lib=" << jnum(v0) << " / " << jnum(v1) << " ref=" << jnum((double)ref.v) << " magnitude=" << jnum((double)ref.m) << " tol=" << jnum(tol);
      return m.str();
    }
  }
  return "";
}

CaseResult body(Chooser& ch, Stats* st) {
  CaseResult r;
  SpecOpts so; so.max_terms = 4096; so.max_coeffs = 50000;
  bool strict = ch.coin(1, 2);
  so.ko.strictly_increasing = strict;
  TableSpec s; std::unique_ptr<Table> t; std::string producer;
  std::string err;
  if (ch.coin(1, 16)) {  // the mixed-order patterns that have their own specialised routines
    static const unsigned pats[2][6] = {{2, 2, 2, 3, 2, 2}, {2, 2, 2, 5, 2, 2}};
    int w = (int)ch.draw(0, 1); KnotOpts ko; ko.extra_max = 1; ko.strictly_increasing = strict;
    for (int d = 0; d < 6; d++) { DimSpec ds; ds.order = pats[w][d]; ds.knots = gen_knots(ch, ds.order, ko); ds.ext_lo = ds.knots[ds.order]; ds.ext_hi = ds.knots[ds.knots.size() - ds.order - 1]; s.dims.push_back(ds); }
    gen_coeffs(ch, s); producer = "P1_read"; t.reset(new Table());
    { QuietStderr q; try { build_p1(*t, s); } catch (std::exception& e) { err = e.what(); } }
    if (st) st->label("orders:known_mixed_pattern");
  } else err = produce_table(ch, so, s, t, producer);
  std::ostringstream js;
  js << "{\"producer\":" << jstr(producer) << ",\"spec\":" << s.json(8);
  if (!err.empty()) { r.fail = err; r.json = js.str() + "}"; return r; }
  bool strictly = true;
  for (auto& d : s.dims) for (size_t i = 1; i < d.knots.size(); i++) if (!(d.knots[i] > d.knots[i - 1])) strictly = false;
  Ctx c{s, *t, s.refdims(), 0, 0};
  for (float v : s.coeff) c.maxc = std::max(c.maxc, fabsf(v));
  for (auto& d : s.dims) c.sumorder += d.order;
  size_t nd = s.ndim();
  if (st) { st->label("ndim:" + std::to_string(nd)); st->label(strictly ? "knots:strict" : "knots:repeated"); st->label("producer:" + producer); for (auto& d : s.dims) st->label("order:" + std::to_string(d.order)); }
  js << ",\"points\":[";
  for (int p = 0; p < 3 && r.fail.empty(); p++) {
    std::vector<double> x(nd); bool special = false;
    for (size_t d = 0; d < nd; d++) { int k; x[d] = gen_coord_inside(ch, s.dims[d], &k); if (k) special = true; if (avoid_known_point(s.dims[d], x[d]) && st) st->excluded_known++; if (st) st->label(std::string("coord:") + coord_kind_name(k)); }
    std::vector<int> cen(nd);
    if (p) js << ",";
    js << "{\"x\":" << jarr(x);
    if (!t->searchcenters(x.data(), cen.data())) { if (st) st->label("lookup_failed_inside_range"); js << "}"; continue; }
    std::string e = check_point<float>(c, ch, st, x, cen, special, js);
    if (e.empty()) e = check_point<double>(c, ch, st, x, cen, special, js);
    if (e.empty()) e = check_deriv(c, ch, st, x, cen, strictly, special, js);
    js << "}";
    if (!e.empty()) r.fail = "point #" + std::to_string(p) + ": " + e;
  }
  js << "]}";
  r.json = js.str();
  if (st) st->sample(r.json);
  return r;
}

}  // namespace

int main(int argc, char** argv) {
  Options o = parse_options(argc, argv);
  std::string st = ref_selftest();
  if (!st.empty()) { fprintf(stderr, "%s\n", st.c_str()); return 2; }
  return run_main(o, "C02", {{"deriv_vs_ref", body, 1.0}});
}
