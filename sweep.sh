#!/bin/bash
# seed sweep of quick tiers: ./sweep.sh "C01 C02 ..." "1 2 3"
for p in $1; do for s in $2; do out=$(./vcheck --prop $p --tier quick --seed $s 2>&1 | grep -v KNOWN-FINDING | tail -3 | tr '\n' ' '); echo "$p seed=$s: $out"; done; done
